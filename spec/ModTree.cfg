SPECIFICATION Spec
INVARIANTS ReportInv
