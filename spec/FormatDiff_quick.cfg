SPECIFICATION Spec
CONSTANTS
  Paths <- MCPaths
  RsPaths <- MCRsPaths
  Starts = {10}
  Counts = {0, 1, 3}
  OCounts = {1, 2}
  Headings = {"none", "plusnum"}
  Bodies = {"plain"}
  MaxSections = 2
  MaxHunks = 1
  Ps = {0, 1, 2, 3}
  Filters = {"rs", "src", "none"}
  LazyHeader = TRUE
INVARIANTS Correct Emit
