---------------------------- MODULE BackupTrace -----------------------------
(* Operational trace validation: the file-system calls of a real run       *)
(* (strace) must be a behaviour of Backup.tla's protocol actions.           *)
(* Records: {ev:"reset", changed:[..]} {ev:"op", i, op} {ev:"end", status}  *)
EXTENDS Backup, IOUtils

Rec == ndJsonDeserialize(IOEnv.TRACE)

VARIABLE l
tvars == <<vars, l>>

TInit ==
  /\ l = 1
  /\ changed = [i \in Files |-> FALSE]
  /\ disk0 = [i \in Files |-> [f |-> "orig", tmp |-> "absent", bk |-> "absent"]]
  /\ disk = disk0
  /\ cur = NFiles + 1 /\ pc = "decide" /\ status = "done" /\ ops = <<>> /\ stop = ""

IsEv(e) == l <= Len(Rec) /\ Rec[l].ev = e /\ l' = l + 1

TReset ==
  /\ IsEv("reset") /\ status # "running"
  /\ changed' = [i \in Files |-> Rec[l].changed[i]]
  /\ disk0' = [i \in Files |-> Rec[l].disk0[i]]
  /\ disk' = disk0'
  /\ cur' = 1 /\ pc' = "decide" /\ status' = "running" /\ ops' = <<>> /\ stop' = ""

(* `Decide` is not a file-system call: it is unlogged, so it is composed    *)
(* silently (as often as needed, at most NFiles times) before an event.     *)
RECURSIVE SkipTo(_, _)
SkipTo(c, i) == IF c = i THEN TRUE ELSE /\ c < i /\ ~changed[c] /\ SkipTo(c + 1, i)

TOp ==
  /\ IsEv("op") /\ status = "running"
  /\ LET i == Rec[l].i  o == Rec[l].op IN
     /\ i \in Files
     /\ \/ /\ pc = "decide" /\ SkipTo(cur, i) /\ changed[i]
           /\ o = (IF Protocol = "backup" THEN "open_tmp" ELSE "open_f")
        \/ /\ pc # "decide" /\ cur = i /\ o = pc
     /\ ops' = Append(ops, <<i, o>>)
     /\ CASE o = "open_tmp" -> disk' = [disk EXCEPT ![i].tmp = "partial"] /\ pc' = "write_tmp"
               /\ cur' = i /\ status' = status
          [] o = "write_tmp" -> disk' = [disk EXCEPT ![i].tmp = "new"] /\ pc' = "rename_bk"
               /\ cur' = i /\ status' = status
          [] o = "rename_bk" -> disk' = [disk EXCEPT ![i].bk = disk[i].f, ![i].f = "absent"]
               /\ pc' = "rename_tmp" /\ cur' = i /\ status' = status
          [] o = "rename_tmp" -> disk' = [disk EXCEPT ![i].f = disk[i].tmp, ![i].tmp = "absent"]
               /\ pc' = "decide" /\ cur' = i + 1 /\ status' = status
          [] o = "open_f" -> disk' = [disk EXCEPT ![i].f = "partial"] /\ pc' = "write_f"
               /\ cur' = i /\ status' = status
          [] o = "write_f" -> disk' = [disk EXCEPT ![i].f = "new"] /\ pc' = "decide"
               /\ cur' = i + 1 /\ status' = status
          [] OTHER -> FALSE
  /\ UNCHANGED <<changed, disk0, stop>>

TEnd ==
  /\ IsEv("end") /\ status = "running"
  /\ LET s == Rec[l].status IN
     /\ s \in {"done", "crashed", "failed"}
     /\ s = "done" => pc = "decide" /\ SkipTo(cur, NFiles + 1)
     /\ status' = s
  /\ UNCHANGED <<changed, disk0, disk, cur, pc, ops, stop>>

TNext == TReset \/ TOp \/ TEnd
TSpec == TInit /\ [][TNext]_tvars

Accepted ==
  LET d == TLCGet("stats").diameter
  IN IF d - 1 = Len(Rec) THEN TRUE ELSE PrintT(<<"REJECTED_AT", d>>) /\ FALSE
=============================================================================
