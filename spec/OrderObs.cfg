SPECIFICATION Spec
INVARIANTS ReportInv
