------------------------------ MODULE LineScan ------------------------------
(* Product automaton: the operational scanner and the ghost line facts are   *)
(* fed the same nondeterministically chosen symbol at each step; at every    *)
(* line feed the reports emitted must lie between `must` and `may`.  The     *)
(* reachable product covers EVERY text of <= MaxLines lines whose lines are  *)
(* at most max_width + Slack columns wide.                                   *)
EXTENDS LineScanCore, TLC

CONSTANTS MaxLines, Slack, Widths, TabSpaces

Syms == {"x", "sp", "tab", "q", "qsp", "qtab", "k", "ksp", "ktab", "cr"}
Ranges == {<<a, b>> : a \in 1 .. MaxLines, b \in 1 .. MaxLines}

VARIABLES cfg, skipped, sel, st, g, lastOp, lastExp, truncOK

vars == <<cfg, skipped, sel, st, g, lastOp, lastExp, truncOK>>

Init ==
  /\ cfg \in [mw : Widths, ts : TabSpaces, eoo : BOOLEAN, eou : BOOLEAN]
  /\ skipped \in {{}} \cup {{r} : r \in Ranges} \cup {{r, q} : r, q \in Ranges}
  /\ sel \in {1 .. MaxLines + 1} \cup {{n} : n \in 1 .. MaxLines} \cup {{}}
  /\ st = St0(sel) /\ g = G0
  /\ lastOp = {} /\ lastExp = [must |-> {}, may |-> {}] /\ truncOK = TRUE

FeedChar(s) ==
  /\ st.cur_line <= MaxLines
  /\ g.raw + W(s, cfg) <= cfg.mw + Slack
  /\ st' = Char(st, s, cfg) /\ g' = GChar(g, s, cfg)
  /\ UNCHANGED <<cfg, skipped, sel, lastOp, lastExp, truncOK>>

FeedLF(lf) ==
  /\ st.cur_line <= MaxLines
  /\ LET r == NewLine(st, lf, cfg, skipped, sel) IN
     /\ st' = r.st
     /\ lastOp' = {x[2] : x \in r.reps}
     /\ lastExp' = Expected(g, lf, st.cur_line, cfg, skipped, sel)
     /\ g' = G0
     (* format_lines truncates nl_count - 1 surplus terminators: exactly one remains *)
     /\ truncOK' = (r.st.nl_count >= 1)
  /\ UNCHANGED <<cfg, skipped, sel>>

Next == (\E s \in Syms : FeedChar(s)) \/ (\E lf \in LFs : FeedLF(lf))
Spec == Init /\ [][Next]_vars

(* C07: every must-report is reported, nothing outside may is reported *)
Exact == lastExp.must \subseteq lastOp /\ lastOp \subseteq lastExp.may
(* the operational line length is the raw width (the ghost), up to the one-column   *)
(* adjustment that is applied only at the line feed                                  *)
LenIsRaw == st.line_len = g.raw
FlagsAgree == st.has_str = g.str /\ st.last_sp = g.blank
TypeOK == st.cur_line \in 1 .. MaxLines + 1 /\ truncOK
=============================================================================
