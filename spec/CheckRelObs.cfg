SPECIFICATION Spec
INVARIANTS ReportInv
