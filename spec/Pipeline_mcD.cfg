SPECIFICATION Spec
CONSTANTS
  MaxRoots = 1
  MaxFiles = 3
  FileFaults = {"D", "H", "K"}
  RootFaults = {}
  Combos <- MCCombos
  GenMode = "all"
  LocalCfgAborts = FALSE
INVARIANTS TypeOK FailedRootIntact OtherRootsFormatted ExitOne Diagnosed NoWriteBeforeResolved ReadOnlyModes ExitRelation WriteOnlyIfDiffers BackupIffChanged ExitIs01
PROPERTY Terminates
