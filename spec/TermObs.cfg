SPECIFICATION Spec
INVARIANTS ReportInv
