--------------------------- MODULE MC_FormatDiff ----------------------------
EXTENDS FormatDiff
MCPaths == {<<"b", "src", "x.rs">>, <<"b", "src", "y.txt">>, <<"b", "other", "z.rs">>,
            <<"", "dev", "null">>}
MCPathsShort == MCPaths \cup {<<"w.rs">>}
MCRsPaths == {<<"b", "src", "x.rs">>, <<"b", "other", "z.rs">>, <<"w.rs">>}
=============================================================================
