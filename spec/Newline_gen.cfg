SPECIFICATION Spec
CONSTANT MaxLen = 5
INVARIANTS Emit
