-------------------------------- MODULE Cli --------------------------------
(***************************************************************************)
(* The command-line front end of the `rustfmt` binary (src/bin/main.rs:    *)
(* GetOptsOptions::from_matches, determine_operation, execute,            *)
(* format_string, format): which operation a combination of flags selects, *)
(* which combinations are refused, and what may be written.               *)
(*                                                                         *)
(* `Oper` transcribes the decision procedure in the order of the code;     *)
(* the declarative clauses below are what a user relies on whatever that   *)
(* order is.  TLC evaluates both on every record -- a combination of flags *)
(* together with what the real binary did with it.                         *)
(*                                                                         *)
(* Flags (record S.f)                                                      *)
(*   help   : "none" | "bare" | "config" | "file-lines" | "bogus"          *)
(*   pc     : "none" | "default" | "current" | "minimal" | "bogus"         *)
(*            (--print-config; it consumes the first free argument)        *)
(*   version, check, backup, list : BOOLEAN                                *)
(*   cfgemit : "none" | "stdout" | "files"  (--config emit_mode=..)        *)
(*   vq     : "none" | "verbose" | "quiet" | "both"                        *)
(*   unst   : "none" | "bare" (--skip-children alone) | "with"             *)
(*            (--unstable-features --skip-children)                        *)
(*   emit   : "none" | "files" | "stdout" | "json" | "checkstyle" |        *)
(*            "coverage" | "bogus"                                         *)
(*   nargs  : 0 (standard input) | 1 (a.rs) | 2 (out.toml a.rs)            *)
(* The source (a.rs / standard input) is one unformatted function.         *)
(*                                                                         *)
(* Observation (record S.o)                                                *)
(*   exit : Int   out : class of stdout   err : stderr is non-empty        *)
(*   file : "orig" | "formatted" | "toml" | "other" | "absent"  (a.rs)     *)
(*   outf : "absent" | "toml" | "other"                        (out.toml)  *)
(*   bk   : a.bk exists                                                    *)
(***************************************************************************)
EXTENDS Naturals, Integers, Sequences, FiniteSets, TLC, Json, IOUtils
Rec == ndJsonDeserialize(IOEnv.TRACE)
VARIABLE l
Init == l = 1
Next == l < Len(Rec) /\ l' = l + 1
Spec == Init /\ [][Next]_l
S == Rec[l]
F == S.f
O == S.o

Res(cls, ex, out, file, outf, bk) ==
  [cls |-> cls, exit |-> ex, out |-> out, file |-> file, outf |-> outf, bk |-> bk]
Untouched == IF F.nargs = 0 THEN "absent" ELSE "orig"
ERR == Res("err", 1, "empty", Untouched, "absent", FALSE)
Info(cls, out) == Res(cls, 0, out, Untouched, "absent", FALSE)

(* ---- from_matches: the refusals, in the order of the code ------------------*)
Refused ==
  \/ F.vq = "both"
  \/ F.unst = "bare"                        \* an unstable flag without --unstable-features
  \/ (F.check /\ F.cfgemit # "none")        \* fix 79c7fbd
  \/ (F.emit # "none" /\ F.check)
  \/ F.emit = "bogus"

(* ---- determine_operation ---------------------------------------------------*)
(* the free arguments that remain for formatting once --print-config took its path *)
FilesLeft == IF F.pc \in {"minimal"} THEN (IF F.nargs = 0 THEN 0 ELSE F.nargs - 1) ELSE F.nargs
(* with nargs = 2 and no --print-config, out.toml would be a (missing) source file: not generated *)
EffMode ==
  IF F.check THEN "diff"
  ELSE IF F.cfgemit # "none" /\ FilesLeft > 0 THEN F.cfgemit   \* --config pairs are applied last
  ELSE IF F.emit = "none" THEN (IF FilesLeft = 0 THEN "stdout" ELSE "files")
  ELSE F.emit
OutOf(mode) ==
  CASE mode = "diff" -> (IF F.list THEN "listing" ELSE "diff")
    [] mode = "stdout" -> "text"
    [] mode = "json" -> "json"
    [] mode = "checkstyle" -> "xml"
    [] mode = "coverage" -> "text"
    \* (the emitter that keeps backups never prints the names: FilesWithBackupEmitter)
    [] mode = "files" -> (IF F.list /\ ~F.backup THEN "listing" ELSE "empty")
FormatFiles ==
  LET m == EffMode
      wr == m = "files"
  IN Res("format", IF m = "diff" THEN 1 ELSE 0, OutOf(m),
         IF wr THEN "formatted" ELSE "orig",
         IF F.pc = "minimal" THEN "toml" ELSE "absent",
         wr /\ F.backup)
FormatStdin ==
  IF ~F.check /\ F.emit \in {"files", "coverage"} THEN ERR
  ELSE Res("stdin", 0, OutOf(EffMode), "absent", "absent", FALSE)

Oper ==
  IF Refused THEN ERR
  ELSE IF F.help = "bare" THEN Info("help", "usage")
  ELSE IF F.help = "config" THEN Info("helpconfig", "configdocs")
  ELSE IF F.help = "file-lines" THEN Info("helpfl", "fldocs")
  ELSE IF F.help = "bogus" THEN ERR
  ELSE IF F.pc = "default" THEN
         (IF F.nargs = 0 THEN Info("pdefault", "toml")
          ELSE IF F.nargs = 1 THEN Res("pdefault", 0, "empty", "toml", "absent", FALSE)
          ELSE Res("pdefault", 0, "empty", "orig", "toml", FALSE))
  ELSE IF F.pc = "current" THEN (IF F.nargs = 0 THEN ERR ELSE Info("pcurrent", "toml"))
  ELSE IF F.pc = "bogus" THEN ERR
  ELSE IF F.version THEN Info("version", "version")
  ELSE IF FilesLeft = 0 THEN (IF F.pc = "minimal" /\ F.nargs > 0 THEN ERR ELSE FormatStdin)
  ELSE FormatFiles

(* ---- what a user relies on --------------------------------------------------*)
Informational == F.help # "none" \/ F.pc \in {"default", "current", "bogus"} \/ F.version
(* the process ends with 0 or 1, never anything else *)
ExitIs01(r) == r.exit \in {0, 1}
(* a refused command line changes nothing and says why *)
RefusalIsClean(r) == Refused => (r.exit = 1 /\ r.file = Untouched /\ r.outf = "absent" /\ ~r.bk)
(* --help, --version, --print-config default / current never format anything; the only file  *)
(* they may write is the PATH given to --print-config default                                *)
InfoNeverFormats(r) ==
  Informational => /\ r.file \in {Untouched, IF F.pc = "default" /\ F.nargs = 1 /\ F.help = "none"
                                              THEN "toml" ELSE Untouched}
                   /\ ~r.bk /\ r.out \notin {"text", "diff", "json", "xml", "listing"}
(* the source file is rewritten only by a formatting run in files mode -- never under --check, *)
(* never under another emit mode, never from standard input                                  *)
WritesOnlyInFilesMode(r) ==
  r.file = "formatted" => (~Informational /\ ~Refused /\ ~F.check /\ F.nargs > 0
                           /\ (F.cfgemit = "files" \/ (F.cfgemit = "none" /\ F.emit \in {"none", "files"})))
(* a backup exists only next to a file that was rewritten *)
BackupOnlyWithWrite(r) == r.bk => (r.file = "formatted" /\ F.backup)
(* an exit status 0 without --check / information means the work was done: the file is formatted *)
FilesModeDoesTheWork(r) ==
  (~Refused /\ ~Informational /\ F.nargs = 1 /\ F.pc = "none" /\ ~F.check /\ F.cfgemit = "none"
   /\ F.emit \in {"none", "files"} /\ r.exit = 0) => r.file = "formatted"
Clauses == {"ExitIs01", "RefusalIsClean", "InfoNeverFormats", "WritesOnlyInFilesMode",
            "BackupOnlyWithWrite", "FilesModeDoesTheWork"}
Holds(n, r) ==
  CASE n = "ExitIs01" -> ExitIs01(r) [] n = "RefusalIsClean" -> RefusalIsClean(r)
    [] n = "InfoNeverFormats" -> InfoNeverFormats(r)
    [] n = "WritesOnlyInFilesMode" -> WritesOnlyInFilesMode(r)
    [] n = "BackupOnlyWithWrite" -> BackupOnlyWithWrite(r)
    [] n = "FilesModeDoesTheWork" -> FilesModeDoesTheWork(r)

ObsRes == [cls |-> "obs", exit |-> O.exit, out |-> O.out, file |-> O.file, outf |-> O.outf, bk |-> O.bk]
(* the transcription itself obeys the clauses (model soundness), the observation obeys them  *)
(* (the verdict), and the observation is what the transcription predicts (drift otherwise)   *)
ModelFails == {n \in Clauses : ~Holds(n, Oper)}
ObsFails == {n \in Clauses : ~Holds(n, ObsRes)}
AsModel == /\ O.exit = Oper.exit /\ O.file = Oper.file /\ O.outf = Oper.outf /\ O.bk = Oper.bk
           /\ O.out = Oper.out
(* records without an observation (field `m`): the transcription alone, over the WHOLE product  *)
(* of the flag dimensions -- the exhaustive part: Oper obeys the clauses for every command line *)
ModelOnly == "m" \in DOMAIN S
ReportInv ==
  IF ModelOnly
  THEN ModelFails = {} \/ PrintT(ToJson([tag |-> "FAIL", l |-> l, fails |-> {}, model |-> ModelFails,
                                          asmodel |-> TRUE, oper |-> Oper]))
  ELSE
  (ModelFails = {} /\ ObsFails = {} /\ AsModel)
  \/ PrintT(ToJson([tag |-> "FAIL", l |-> l, fails |-> ObsFails, model |-> ModelFails,
                    asmodel |-> AsModel, oper |-> Oper]))
=============================================================================
