------------------------------ MODULE Newline -------------------------------
(* TLC enumerates every text over {"c","cr","lf"} up to MaxLen and checks the     *)
(* converters of NewlineCore.tla against the declarative clauses of C08.          *)
EXTENDS NewlineCore
CONSTANT MaxLen

RECURSIVE Texts(_)
Texts(n) == IF n = 0 THEN {<<>>} ELSE
             LET P == Texts(n - 1) IN P \cup {Append(s, x) : s \in {q \in P : Len(q) = n - 1}, x \in Sym}

VARIABLES text, done
Init == text \in Texts(MaxLen) /\ done = FALSE
Next == ~done /\ done' = TRUE /\ UNCHANGED text
Spec == Init /\ [][Next]_<<text, done>>

(* NOTE: without the premise TLC reports <<"cr","cr","lf">> -> <<"cr","lf">>:     *)
(* str::replace is non-overlapping, so `convert_to_unix_newlines` can manufacture *)
(* a CR LF.  No source text reaches it (see DESIGN.md, C08).                      *)
UnixOK == Producible(text) => NoCRLF(ToUnix(text, 1))
UnixOKAll == NoCRLF(ToUnix(text, 1))
WindowsOK == AllCRLF(ToWin(text, 1))
ContentKeptWin == Content(ToWin(text, 1), 1) = Content(text, 1)
ContentKeptUnix == Producible(text) => Content(ToUnix(text, 1), 1) = Content(text, 1)
IdemWin == ToWin(ToWin(text, 1), 1) = ToWin(text, 1)
IdemUnix == Producible(text) => ToUnix(ToUnix(text, 1), 1) = ToUnix(text, 1)
(* Auto follows the first terminator of the raw input *)
AutoOK == LET a == Auto(text) p == FirstLF(text) IN
          (p = 0 => a = "native") /\
          (p > 0 => (a = "windows" <=> (p > 1 /\ text[p - 1] = "cr")))

Emit == PrintT(ToJson([tag |-> "REPLAY", text |-> text, win |-> ToWin(text, 1),
                       unix |-> ToUnix(text, 1), auto |-> Auto(text)]))
=============================================================================
