SPECIFICATION Spec
CONSTANTS
  MaxRoots = 2
  MaxFiles = 2
  FileFaults = {"E", "P", "N", "M", "A", "S", "W", "C", "R", "Z", "T", "G"}
  RootFaults = {"badtoml", "vermismatch", "missing", "dir"}
  Combos <- MCCombos
  GenMode = "all"
  LocalCfgAborts = FALSE
INVARIANTS TypeOK FailedRootIntact OtherRootsFormatted ExitOne Diagnosed NoWriteBeforeResolved ReadOnlyModes ExitRelation WriteOnlyIfDiffers BackupIffChanged ExitIs01
PROPERTY Terminates
