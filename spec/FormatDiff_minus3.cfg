SPECIFICATION Spec
CONSTANTS
  Paths <- MCPaths
  RsPaths <- MCRsPaths
  Starts = {10}
  Counts = {1, 3}
  OCounts = {1}
  Headings = {"none", "text"}
  Bodies = {"plain", "minus3"}
  MaxSections = 1
  MaxHunks = 2
  Ps = {0, 1, 2, 3}
  Filters = {"rs", "src", "none"}
  LazyHeader = TRUE
INVARIANTS Emit
