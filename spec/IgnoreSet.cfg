SPECIFICATION Spec
INVARIANTS ReportInv
