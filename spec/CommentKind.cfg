SPECIFICATION Spec
CONSTANTS
  Alphabet = {"/", "*", "!", "x", " "}
  MaxLen = 5
INVARIANTS Agreement Predict
CHECK_DEADLOCK FALSE
