----------------------------- MODULE ServiceObs -----------------------------
(* C15's laws evaluated by TLC on observed invocations of the real binary.   *)
(* Record: {order:[ids], mode, exit, single_exit:[..], hash:[..],             *)
(*          single_hash:[..], diag:[..], single_diag:[..], variant}           *)
(* (parallel arrays, one entry per element of `order`).                       *)
EXTENDS Naturals, Sequences, FiniteSets, TLC, Json, IOUtils
Rec == ndJsonDeserialize(IOEnv.TRACE)
VARIABLE l
Init == l = 1
Next == l < Len(Rec) /\ l' = l + 1
Spec == Init /\ [][Next]_l
R == Rec[l]
Max(S) == CHOOSE m \in S : \A x \in S : x <= m

(* the bytes for a file are those of its single-file run *)
Functional == \A j \in 1 .. Len(R.order) : R.hash[j] = R.single_hash[j]
(* exit status = maximum of the single-file statuses *)
ExitIsMax == R.exit = Max({R.single_exit[j] : j \in 1 .. Len(R.order)})
(* per-file diagnostics are those of the single-file runs *)
ReportsPerFile == \A j \in 1 .. Len(R.order) : R.diag[j] = R.single_diag[j]

Names == {"Functional", "ExitIsMax", "ReportsPerFile"}
Holds(n) == CASE n = "Functional" -> Functional [] n = "ExitIsMax" -> ExitIsMax
              [] n = "ReportsPerFile" -> ReportsPerFile
ReportInv ==
  LET F == {n \in Names : ~Holds(n)}
  IN F = {} \/ PrintT(ToJson([tag |-> "FAIL", l |-> l, fails |-> F]))
=============================================================================
