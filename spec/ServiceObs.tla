----------------------------- MODULE ServiceObs -----------------------------
(* C15's laws evaluated by TLC on observed invocations of the real binary.   *)
(* Record: {order:[ids], mode, exit, single_exit:[..], hash:[..],             *)
(*          single_hash:[..], diag:[..], single_diag:[..], variant}           *)
(* (parallel arrays, one entry per element of `order`).                       *)
EXTENDS Naturals, Sequences, FiniteSets, TLC, Json, IOUtils
Rec == ndJsonDeserialize(IOEnv.TRACE)
VARIABLE l
Init == l = 1
Next == l < Len(Rec) /\ l' = l + 1
Spec == Init /\ [][Next]_l
R == Rec[l]
Max(S) == CHOOSE m \in S : \A x \in S : x <= m

(* the bytes for a file are those of its single-file run *)
Functional == \A j \in 1 .. Len(R.order) : R.hash[j] = R.single_hash[j]
(* exit status = maximum of the single-file statuses *)
ExitIsMax == R.exit = Max({R.single_exit[j] : j \in 1 .. Len(R.order)})
(* per-file diagnostics are those of the single-file runs *)
ReportsPerFile == \A j \in 1 .. Len(R.order) : R.diag[j] = R.single_diag[j]

(* what an invocation prints is the union (as a multiset of per-file sections: stdout     *)
(* sections, json records, diff blocks) of what each of its inputs prints alone -- also   *)
(* when the same path is reached more than once (named twice, or both as a root and as a  *)
(* module of another root).  sections / single_sections are lists of path#hash.          *)
(* ... and in the order of the inputs: sections / single_sections are the lists in the order   *)
(* printed (the sections of the first input, then those of the second, ...)                   *)
SectionsAreUnion == R.sections = R.single_sections

Names == {"Functional", "ExitIsMax", "ReportsPerFile", "SectionsAreUnion"}
Holds(n) == CASE n = "Functional" -> Functional [] n = "ExitIsMax" -> ExitIsMax
              [] n = "ReportsPerFile" -> ReportsPerFile [] n = "SectionsAreUnion" -> SectionsAreUnion
ReportInv ==
  LET F == {n \in Names : ~Holds(n)}
  IN F = {} \/ PrintT(ToJson([tag |-> "FAIL", l |-> l, fails |-> F]))
=============================================================================
