SPECIFICATION Spec
INVARIANTS ReportInv
