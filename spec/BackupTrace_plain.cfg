SPECIFICATION TSpec
CONSTANTS
  NFiles = 3
  Protocol = "plain"
  FaultOps = TRUE
INVARIANTS OriginalRecoverable NeverPartialTarget
POSTCONDITION Accepted
