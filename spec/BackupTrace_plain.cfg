SPECIFICATION TSpec
CONSTANTS
  NFiles = 3
  Protocol = "plain"
  FaultOps = TRUE
  Pre = {"absent", "stale"}
INVARIANTS OriginalRecoverable NeverPartialTarget
POSTCONDITION Accepted
