--------------------------- MODULE PipelineTrace ----------------------------
(***************************************************************************)
(* Trace validation of recorded pipeline events (hooks of src/verif.rs,    *)
(* depth <= 1) against the step structure of Pipeline.tla.  The actions    *)
(* consume one event each and are permissive about ORDER (an unexpected    *)
(* order only clears `inOrder`, which the runner reports as DRIFT); the    *)
(* named invariants are the property clauses and are evaluated after       *)
(* every event of every run.                                               *)
(***************************************************************************)
EXTENDS Naturals, Sequences, FiniteSets, TLC, Json, IOUtils

Rec == ndJsonDeserialize(IOEnv.TRACE)

FlagNames == {"operational", "parsing", "formatting", "macro", "check", "diff", "unformatted"}
NoF == [f \in FlagNames |-> FALSE]

VARIABLES l, phase, check, mode, backup, resolved, filtered, formatted, cur, curDiffers,
          flags, fsn, inOrder, invoked,
          bad        \* name of the first property clause broken in this run ("" if none)

vars == <<l, phase, check, mode, backup, resolved, filtered, formatted, cur, curDiffers,
          flags, fsn, inOrder, invoked, bad>>

Init ==
  /\ l = 1 /\ phase = "idle" /\ check = FALSE /\ mode = "" /\ backup = FALSE
  /\ resolved = {} /\ filtered = {} /\ formatted = {} /\ cur = "" /\ curDiffers = FALSE
  /\ flags = NoF /\ fsn = 0 /\ inOrder = TRUE /\ invoked = FALSE /\ bad = ""

E == Rec[l]
IsEv(e) == l <= Len(Rec) /\ E.ev = e /\ l' = l + 1
Flag(rec, f) == IF f \in DOMAIN rec THEN rec[f] ELSE FALSE
AsFlags(rec) == [f \in FlagNames |-> Flag(rec, f)]
Geq(a, b) == \A f \in FlagNames : b[f] => a[f]
Or(a, b) == [f \in FlagNames |-> a[f] \/ b[f]]
Mark(name, ok) == bad' = IF bad = "" /\ ~ok THEN name ELSE bad
Order(ok) == inOrder' = (inOrder /\ ok)

Reset ==
  /\ IsEv("reset")
  /\ phase' = "idle" /\ check' = FALSE /\ mode' = "" /\ backup' = FALSE
  /\ resolved' = {} /\ filtered' = {} /\ formatted' = {} /\ cur' = "" /\ curDiffers' = FALSE
  /\ flags' = NoF /\ fsn' = 0 /\ inOrder' = TRUE /\ invoked' = FALSE /\ bad' = ""

(* For standard input (files = <<>>) the status does not depend on --check: main.rs      *)
(* format_string, pinned by the repository's test verify_check_l_works_with_stdin.       *)
Invocation ==
  /\ IsEv("Invocation") /\ check' = (E.check /\ Len(E.files) > 0)
  /\ Order(phase = "idle") /\ invoked' = TRUE
  /\ UNCHANGED <<phase, mode, backup, resolved, filtered, formatted, cur, curDiffers, flags, fsn, bad>>

InputStart ==
  /\ IsEv("InputStart")
  /\ phase' = "started" /\ mode' = E.mode /\ backup' = E.backup
  /\ resolved' = {} /\ filtered' = {} /\ formatted' = {} /\ cur' = "" /\ curDiffers' = FALSE
  /\ fsn' = 0
  (* C15: the session flags are sticky: what a new input sees is what was accumulated *)
  /\ Mark("TrFlagsSticky", Geq(AsFlags(E.flags), flags))
  /\ flags' = Or(flags, AsFlags(E.flags))
  /\ Order(phase \in {"idle", "failed"}) /\ UNCHANGED <<check, invoked>>

VersionMismatch ==
  /\ IsEv("VersionMismatch") /\ phase' = "failed" /\ Order(phase = "started")
  /\ UNCHANGED <<check, mode, backup, resolved, filtered, formatted, cur, curDiffers, flags, fsn, bad, invoked>>

(* disable_all_formatting: the input is echoed / left alone, nothing is parsed; no InputEnd follows *)
Disabled ==
  /\ IsEv("Disabled") /\ phase' = "ended" /\ Order(phase = "started")
  /\ UNCHANGED <<check, mode, backup, resolved, filtered, formatted, cur, curDiffers, flags, fsn, bad, invoked>>

ParseRoot ==
  /\ IsEv("ParseRoot")
  /\ phase' = IF E.ok THEN "rootparsed" ELSE "parsefailed"
  /\ Order(phase = "started")
  /\ UNCHANGED <<check, mode, backup, resolved, filtered, formatted, cur, curDiffers, flags, fsn, bad, invoked>>

Resolved ==
  /\ IsEv("Resolved")
  /\ resolved' = {E.files[i] : i \in 1 .. Len(E.files)}
  /\ phase' = "resolved" /\ Order(phase = "rootparsed")
  /\ UNCHANGED <<check, mode, backup, filtered, formatted, cur, curDiffers, flags, fsn, bad, invoked>>

Filtered ==
  /\ IsEv("Filtered")
  /\ filtered' = filtered \cup {E.path}
  /\ Order(phase = "resolved" /\ E.path \in resolved)
  /\ UNCHANGED <<phase, check, mode, backup, resolved, formatted, cur, curDiffers, flags, fsn, bad, invoked>>

FormatFile ==
  /\ IsEv("FormatFile")
  (* C13: only resolved, non-excluded files, each once *)
  /\ Mark("TrEachOnce", E.path \in resolved /\ E.path \notin filtered /\ E.path \notin formatted)
  /\ formatted' = formatted \cup {E.path} /\ cur' = E.path /\ curDiffers' = FALSE
  /\ phase' = "formatting" /\ fsn' = 0
  (* (a session without a writer -- Session::new(config, None) -- emits nothing: Emit is optional) *)
  /\ Order(phase \in {"resolved", "emitted", "formatting"})
  /\ UNCHANGED <<check, mode, backup, resolved, filtered, flags, invoked>>

Emit ==
  /\ IsEv("Emit")
  /\ curDiffers' = E.differs /\ phase' = "emitted"
  /\ Order(phase = "formatting" /\ E.path = cur)
  /\ UNCHANGED <<check, mode, backup, resolved, filtered, formatted, cur, flags, fsn, bad, invoked>>

FsOp ==
  /\ IsEv("FsOp")
  /\ fsn' = fsn + 1
  (* C05: nothing is written before the whole crate has been resolved;       *)
  (* C06: only the Files emitters write, and only files whose text differs   *)
  /\ Mark(IF phase \notin {"emitted"} THEN "TrNoWriteBeforeResolved"
          ELSE IF mode # "Files" THEN "TrReadOnly" ELSE "TrWriteOnlyIfDiffers",
          phase = "emitted" /\ mode = "Files" /\ curDiffers)
  /\ Order(IF backup
             THEN E.point = (CASE fsn = 0 -> "backup.write_tmp" [] fsn = 1 -> "backup.rename_bk"
                               [] fsn = 2 -> "backup.rename_tmp" [] OTHER -> "none")
             ELSE E.point = "files.write" /\ fsn = 0)
  /\ UNCHANGED <<phase, check, mode, backup, resolved, filtered, formatted, cur, curDiffers, flags, invoked>>

InputEnd ==
  /\ IsEv("InputEnd")
  (* C15: ReportedErrors::add ORs the report into the session *)
  /\ Mark(IF AsFlags(E.flags) # Or(flags, AsFlags(E.report)) THEN "TrFlagsOr" ELSE "TrAllFormatted",
          /\ AsFlags(E.flags) = Or(flags, AsFlags(E.report))
          /\ (phase \in {"resolved", "emitted", "formatting"}) => formatted = resolved \ filtered)
  /\ flags' = Or(flags, AsFlags(E.flags))
  /\ phase' = "ended"
  /\ Order(phase \in {"resolved", "emitted", "formatting", "parsefailed"})
  /\ UNCHANGED <<check, mode, backup, resolved, filtered, formatted, cur, curDiffers, fsn, invoked>>

Reported ==
  /\ IsEv("Reported")
  (* back in main: flags only grow; an input that ended without InputEnd (Err path)  *)
  (* must have set the operational flag                                               *)
  /\ Mark(IF ~Geq(AsFlags(E.flags), flags) THEN "TrFlagsSticky" ELSE "TrErrIsOperational",
          /\ Geq(AsFlags(E.flags), flags)
          /\ (phase # "ended") => AsFlags(E.flags).operational)
  /\ flags' = Or(flags, AsFlags(E.flags))
  /\ phase' = "idle"
  /\ UNCHANGED <<check, mode, backup, resolved, filtered, formatted, cur, curDiffers, fsn, inOrder, invoked>>

BadPath ==
  /\ IsEv("BadPath")
  /\ flags' = [flags EXCEPT !.operational = TRUE]
  /\ Order(phase = "idle")
  /\ UNCHANGED <<phase, check, mode, backup, resolved, filtered, formatted, cur, curDiffers, fsn, bad, invoked>>

PanicCaught ==
  /\ IsEv("PanicCaught") \/ IsEv("InjectedPanic") \/ IsEv("Fault") \/ IsEv("Crash")
  /\ UNCHANGED <<phase, check, mode, backup, resolved, filtered, formatted, cur, curDiffers,
                 flags, fsn, inOrder, bad, invoked>>

Exit ==
  /\ IsEv("Exit")
  (* C06 / C15 / C16: the exit status is a function of the accumulated flags *)
  (* (no Invocation before it: --help / --print-config / a usage or configuration error, *)
  (*  decided before any session exists: 0 or 1)                                          *)
  /\ Mark("TrExit",
          IF invoked
          THEN E.code = IF flags.operational \/ flags.parsing \/ (check /\ (flags.diff \/ flags.check))
                          THEN 1 ELSE 0
          ELSE E.code \in {0, 1})
  /\ phase' = "exited"
  /\ UNCHANGED <<check, mode, backup, resolved, filtered, formatted, cur, curDiffers, flags, fsn,
                 inOrder, invoked>>

Next == Reset \/ Invocation \/ InputStart \/ VersionMismatch \/ Disabled \/ ParseRoot \/ Resolved
        \/ Filtered \/ FormatFile \/ Emit \/ FsOp \/ InputEnd \/ Reported \/ BadPath
        \/ PanicCaught \/ Exit
Spec == Init /\ [][Next]_vars

(* one pass: at the end of each run print its verdict, never stop *)
AtRunEnd == l > Len(Rec) \/ Rec[l].ev = "reset"
(* C16: a process that announced an invocation must reach Exit (status 0 or 1 is TrExit) *)
Ended == invoked => phase = "exited"
ReportInv ==
  (AtRunEnd /\ l > 1 /\ (bad # "" \/ ~inOrder \/ ~Ended)) =>
      PrintT(ToJson([tag |-> "FAIL", l |-> l - 1,
                     bad |-> IF bad = "" /\ ~Ended THEN "TrEnds" ELSE bad, inOrder |-> inOrder]))

TrNoWriteBeforeResolved == bad # "TrNoWriteBeforeResolved"
TrReadOnly == bad # "TrReadOnly"
TrWriteOnlyIfDiffers == bad # "TrWriteOnlyIfDiffers"
TrEachOnce == bad # "TrEachOnce"
TrAllFormatted == bad # "TrAllFormatted"
TrFlagsSticky == bad # "TrFlagsSticky"
TrFlagsOr == bad # "TrFlagsOr"
TrErrIsOperational == bad # "TrErrIsOperational"
TrExit == bad # "TrExit"
TrOrder == inOrder

Accepted ==
  LET d == TLCGet("stats").diameter
  IN IF d - 1 = Len(Rec) THEN TRUE ELSE PrintT(<<"REJECTED_AT", d>>) /\ FALSE
=============================================================================
