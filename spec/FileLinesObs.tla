---------------------------- MODULE FileLinesObs ----------------------------
(* C17 evaluated by TLC on the REAL FileLines (export hook) and on runs of the *)
(* real formatter with a line selection.                                       *)
(* kind "algebra": {sel:[[lo,hi]..], norm:[[lo,hi]..], maxline,                *)
(*                  q:[{lo,hi,contains,intersects,lines:[b..]}]}               *)
(* kind "gate":    {sel, items:[{lo,hi,verbatim:b,formatted:b}],               *)
(*                  reports:[line..], other_untouched:b, empty_sel:b,          *)
(*                  unchanged:b}                                               *)
EXTENDS FileLinesCore, TLC, Json, IOUtils
Rec == ndJsonDeserialize(IOEnv.TRACE)
VARIABLE l
Init == l = 1
Next == l < Len(Rec) /\ l' = l + 1
Spec == Init /\ [][Next]_l
R == Rec[l]
U == LinesOf(R.sel)

(* ---- algebra ---- *)
NormDenotesUnion == R.kind = "algebra" => LinesOf(R.norm) = U
QueriesAgree ==
  R.kind = "algebra" =>
    \A i \in 1 .. Len(R.q) :
      LET x == R.q[i] IN
      /\ x.lo <= x.hi => (x.contains <=> (x.lo .. x.hi) \subseteq U)
      /\ x.lo <= x.hi => (x.intersects <=> (x.lo .. x.hi) \cap U # {})
      /\ \A j \in 1 .. Len(x.lines) : x.lines[j] <=> (x.lo + j - 1) \in U
AsModel == R.kind = "algebra" => R.norm = Normalize(R.sel)

(* ---- gating ---- *)
Selected(it) == (it.lo .. it.hi) \cap U # {}
(* code that does not intersect the selection is emitted byte for byte *)
UnselectedVerbatim == R.kind = "gate" => \A i \in 1 .. Len(R.items) :
                         ~Selected(R.items[i]) => R.items[i].verbatim
(* code that does intersect is formatted as it would be without the restriction *)
SelectedFormatted == R.kind = "gate" => \A i \in 1 .. Len(R.items) :
                         (Selected(R.items[i]) /\ R.items[i].whole) => R.items[i].formatted
(* diagnostics only for selected lines *)
ReportsSelected == R.kind = "gate" => \A i \in 1 .. Len(R.reports) : R.reports[i] \in U
OthersUntouched == R.kind = "gate" => R.other_untouched
EmptyFormatsNothing == (R.kind = "gate" /\ U = {}) => R.unchanged

ReportInv ==
  LET F == {n \in {"NormDenotesUnion", "QueriesAgree", "AsModel", "UnselectedVerbatim",
                   "SelectedFormatted", "ReportsSelected", "OthersUntouched",
                   "EmptyFormatsNothing"} :
              ~(CASE n = "NormDenotesUnion" -> NormDenotesUnion [] n = "QueriesAgree" -> QueriesAgree
                  [] n = "AsModel" -> AsModel [] n = "UnselectedVerbatim" -> UnselectedVerbatim
                  [] n = "SelectedFormatted" -> SelectedFormatted
                  [] n = "ReportsSelected" -> ReportsSelected
                  [] n = "OthersUntouched" -> OthersUntouched
                  [] n = "EmptyFormatsNothing" -> EmptyFormatsNothing)}
  IN F = {} \/ PrintT(ToJson([tag |-> "FAIL", l |-> l, fails |-> F]))
=============================================================================
