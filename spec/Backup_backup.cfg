SPECIFICATION Spec
CONSTANTS
  NFiles = 3
  Protocol = "backup"
  FaultOps = TRUE
INVARIANTS TypeOK OriginalRecoverable NeverPartialTarget PostState LaterFilesUntouched PlainComplete Emit
PROPERTY Terminates
