SPECIFICATION Spec
CONSTANTS
  NFiles = 3
  Protocol = "backup"
  FaultOps = TRUE
  Pre = {"absent", "stale"}
INVARIANTS TypeOK OriginalRecoverable NeverPartialTarget PostState LaterFilesUntouched PlainComplete Emit
PROPERTY Terminates
