SPECIFICATION Spec
CONSTANTS
  MaxLines = 2
  Slack = 3
  Widths = {2, 3}
  TabSpaces = {1, 2}
INVARIANTS TypeOK Exact LenIsRaw FlagsAgree
