----------------------------- MODULE CommentKind ----------------------------
(***************************************************************************)
(* C03 (kind A): which comments are doc comments.                          *)
(*                                                                         *)
(* A comment that the COMPILER reads as a doc comment is an attribute: it  *)
(* is part of the AST and handled by the attribute code.  Every other      *)
(* comment is invisible to the AST and must be recovered by the comment    *)
(* machinery, whose entry point `comment_style` (src/comment.rs) classifies*)
(* a comment by its first characters.  If the two classifications differ   *)
(* on some opener, re-emitting the comment with the opener of its style    *)
(* turns an ordinary comment into documentation or the reverse.            *)
(*                                                                         *)
(* LexDoc   -- the reference: rustc_lexer (line_comment / block_comment).  *)
(* FmtStyle -- transcription of comment_style(orig, normalize_comments).   *)
(* TLC enumerates every opener over Alphabet up to MaxLen, checks Agreement*)
(* and prints one prediction per opener; tools/rfv/c03.py replays each     *)
(* opener into the real rustc_lexer and the real comment_style.            *)
(***************************************************************************)
EXTENDS Naturals, Sequences, TLC, Json
CONSTANTS Alphabet, MaxLen

VARIABLES s, n
vars == <<s, n>>

Ch(i) == IF i <= Len(s) THEN s[i] ELSE "eof"
Starts(p) == Len(s) >= Len(p) /\ SubSeq(s, 1, Len(p)) = p

(* ---- reference: rustc_lexer ------------------------------------------- *)
IsLine == Starts(<<"/", "/">>)
LexDoc ==
  IF IsLine
  THEN Ch(3) = "!" \/ (Ch(3) = "/" /\ Ch(4) # "/")
  ELSE Ch(3) = "!" \/ (Ch(3) = "*" /\ Ch(4) \notin {"*", "/"})

(* ---- transcription: src/comment.rs ------------------------------------ *)
AlnumOrBlank(c) == c \in {"x", " "}
IsCustom == IsLine /\ Len(s) >= 3 /\ ~AlnumOrBlank(s[3])
TripleSlashShape == Starts(<<"/", "/", "/">>) /\ Ch(4) # "/"
DoubleBulletShape == Starts(<<"/", "*", "*">>) /\ ~Starts(<<"/", "*", "*", "/">>)
                       /\ ~Starts(<<"/", "*", "*", "*">>)
FmtStyle ==
  IF ~n THEN
    CASE DoubleBulletShape -> "DoubleBullet"
      [] ~DoubleBulletShape /\ Starts(<<"/", "*", "!">>) -> "Exclamation"
      [] ~DoubleBulletShape /\ ~Starts(<<"/", "*", "!">>) /\ Starts(<<"/", "*">>) -> "SingleBullet"
      [] IsLine /\ TripleSlashShape -> "TripleSlash"
      [] IsLine /\ ~TripleSlashShape /\ Starts(<<"/", "/", "!">>) -> "Doc"
      [] IsLine /\ ~TripleSlashShape /\ ~Starts(<<"/", "/", "!">>) /\ IsCustom -> "Custom"
      [] OTHER -> "DoubleSlash"
  ELSE
    CASE TripleSlashShape \/ DoubleBulletShape -> "TripleSlash"
      [] ~(TripleSlashShape \/ DoubleBulletShape)
           /\ (Starts(<<"/", "/", "!">>) \/ Starts(<<"/", "*", "!">>)) -> "Doc"
      [] ~(TripleSlashShape \/ DoubleBulletShape)
           /\ ~(Starts(<<"/", "/", "!">>) \/ Starts(<<"/", "*", "!">>)) /\ IsCustom -> "Custom"
      [] OTHER -> "DoubleSlash"
DocShaped(st) == st \in {"TripleSlash", "Doc", "DoubleBullet", "Exclamation"}

(* ---- exploration -------------------------------------------------------- *)
Init == s \in {<<"/", "/">>, <<"/", "*">>} /\ n \in BOOLEAN
Next == Len(s) < MaxLen /\ \E c \in Alphabet : s' = Append(s, c) /\ n' = n
Spec == Init /\ [][Next]_vars

(* the compiler and rustfmt agree on what is documentation *)
Agreement == LexDoc = DocShaped(FmtStyle)
(* an opener rustfmt re-emits for a non-doc style is itself non-doc, and conversely *)
Predict == PrintT(ToJson([tag |-> "CK", s |-> s, n |-> n, lexdoc |-> LexDoc, style |-> FmtStyle]))
=============================================================================
