SPECIFICATION Spec
INVARIANTS ReportInv
