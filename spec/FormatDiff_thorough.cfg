SPECIFICATION Spec
CONSTANTS
  Paths <- MCPaths
  RsPaths <- MCRsPaths
  Starts = {1, 10}
  Counts = {0, 1, 3}
  OCounts = {0, 1}
  Headings = {"none", "text", "plusnum"}
  Bodies = {"plain"}
  MaxSections = 2
  MaxHunks = 1
  Ps = {0, 1, 2}
  Filters = {"rs", "src"}
  LazyHeader = TRUE
INVARIANTS Correct Emit
