SPECIFICATION Spec
INVARIANTS ReportInv
