SPECIFICATION Spec
CONSTANTS
  MaxLines = 3
  Slack = 3
  Widths = {1, 2, 3}
  TabSpaces = {1, 2, 3}
INVARIANTS TypeOK Exact LenIsRaw FlagsAgree
