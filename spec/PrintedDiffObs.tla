--------------------------- MODULE PrintedDiffObs ---------------------------
(***************************************************************************)
(* C12 on what `rustfmt --check` PRINTS (rustfmt_diff::print_diff writes   *)
(* to the process's stdout, so only a run of the binary shows it): every   *)
(* printed hunk `Diff in <file>:<N>:` is consistent with the original text *)
(* at the stated line N, and the printed hunks alone rebuild the formatted *)
(* text.  Record: {orig:[c..], fmt:[c..], printed:[{lno, lines:[[tag,c]..]}], *)
(* listed: the file is named by `--check -l`}                               *)
(* with tag C (context) / R (removed) / E (added), lines numbered per pair. *)
(***************************************************************************)
EXTENDS MakeDiffObs

RECURSIVE WalkOrig(_, _, _, _)
WalkOrig(orig, lines, j, b) ==
  IF j > Len(lines) THEN TRUE
  ELSE LET t == lines[j][1]  c == lines[j][2] IN
       IF t \in {"C", "R"} THEN b <= Len(orig) /\ orig[b] = c /\ WalkOrig(orig, lines, j + 1, b + 1)
       ELSE WalkOrig(orig, lines, j + 1, b)

PrintedConsistent ==
  \A h \in 1 .. Len(R.printed) :
     R.printed[h].lno >= 1 /\ WalkOrig(R.orig, R.printed[h].lines, 1, R.printed[h].lno)
PrintedChunks ==
  [h \in 1 .. Len(R.printed) |->
     LET L == R.printed[h].lines
         kept == SelectSeq(L, LAMBDA x : x[1] \in {"C", "E"})
     IN [at |-> R.printed[h].lno,
         removed |-> Cardinality({j \in 1 .. Len(L) : L[j][1] \in {"C", "R"}}),
         added |-> [j \in 1 .. Len(kept) |-> kept[j][2]]]]
PrintedRebuild == Rebuild(PrintedChunks, 1, 1) = R.fmt
PrintedEmptyIff == (R.printed = <<>>) <=> (R.orig = R.fmt)
(* the file-name listing of `--check -l` is the same report in its shortest form: the file *)
(* is named exactly when the two texts do not have the same lines                         *)
ListedIffDiffers == R.listed <=> (R.orig # R.fmt)

ReportInvP ==
  LET F == {n \in {"PrintedConsistent", "PrintedRebuild", "PrintedEmptyIff", "ListedIffDiffers"} :
              ~(CASE n = "PrintedConsistent" -> PrintedConsistent
                  [] n = "PrintedRebuild" -> PrintedRebuild [] n = "PrintedEmptyIff" -> PrintedEmptyIff
                  [] n = "ListedIffDiffers" -> ListedIffDiffers)}
  IN F = {} \/ PrintT(ToJson([tag |-> "FAIL", l |-> l, fails |-> F]))
=============================================================================
