SPECIFICATION Spec
CONSTANTS
  Alphabet = {"a", "A", "_", "0", "1"}
  MaxLen = 3
  Extra <- MCExtra
INVARIANTS Reflexive Antisymmetric Transitive EquivTransitive
