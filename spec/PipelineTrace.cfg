SPECIFICATION Spec
INVARIANTS ReportInv
POSTCONDITION Accepted
