SPECIFICATION Spec
CONSTANT MaxLen = 6
INVARIANTS WindowsOK ContentKeptWin IdemWin UnixOK ContentKeptUnix IdemUnix AutoOK
