------------------------------- MODULE Backup -------------------------------
(***************************************************************************)
(* The write protocols of the two file-writing emitters of rustfmt         *)
(* (src/emitter/files_with_backup.rs, src/emitter/files.rs), at the grain  *)
(* of the file-system calls they make, for one crate root whose files are  *)
(* emitted one after the other.  Property C20 (and the write clause of     *)
(* C05/C06).                                                               *)
(*                                                                         *)
(* Per file i the disk holds three names: the source file "f", its         *)
(* temporary sibling "tmp" and its backup sibling "bk".  Contents are      *)
(* abstract: "absent", "orig" (the complete original), "new" (the complete *)
(* formatted text), "partial" (created/truncated, not completely written). *)
(***************************************************************************)
EXTENDS Naturals, Sequences, FiniteSets, TLC, Json

CONSTANTS NFiles,      \* files emitted by the run, in emission order
          Protocol,    \* "backup" | "plain"
          FaultOps,    \* TRUE: explore crashes and failing operations
          Pre          \* possible pre-existing contents of the .tmp / .bk siblings

Content == {"absent", "orig", "new", "partial", "stale"}
Files   == 1 .. NFiles

VARIABLES changed,   \* [Files -> BOOLEAN]  formatted text differs from disk
          disk0,     \* the disk before the run (siblings may be left over from earlier runs)
          disk,      \* [Files -> [f : Content, tmp : Content, bk : Content]]
          cur,       \* file being emitted; NFiles + 1 when all are done
          pc,        \* next step of the protocol for file cur
          status,    \* "running" | "done" | "crashed" | "failed"
          ops,       \* history: sequence of completed file-system calls
          stop       \* history: what ended the run ("", "crash", or the failed call)

vars == <<changed, disk0, disk, cur, pc, status, ops, stop>>

Init ==
  /\ changed \in [Files -> BOOLEAN]
  /\ disk0 \in [Files -> {[f |-> "orig", tmp |-> t, bk |-> b] : t \in Pre, b \in Pre}]
  /\ disk = disk0
  /\ cur = 1
  /\ pc = "decide"
  /\ status = "running"
  /\ ops = <<>>
  /\ stop = ""

Set(i, name, c) == disk' = [disk EXCEPT ![i][name] = c]

NextFile ==
  /\ cur' = cur + 1
  /\ pc' = "decide"
  /\ status' = IF cur = NFiles THEN "done" ELSE "running"

Running == status = "running" /\ cur \in Files

(* emit_formatted_file: `if original_text != formatted_text { ... }` *)
Decide ==
  /\ Running /\ pc = "decide"
  /\ IF changed[cur]
       THEN /\ pc' = IF Protocol = "backup" THEN "open_tmp" ELSE "open_f"
            /\ UNCHANGED <<cur, status>>
       ELSE NextFile
  /\ UNCHANGED <<changed, disk0, disk, ops, stop>>

Op(name) == ops' = Append(ops, <<cur, name>>)

(* fs::write(&tmp_name, ..) = open(O_CREAT|O_TRUNC) ; write ; close *)
OpenTmp ==
  /\ Running /\ pc = "open_tmp"
  /\ Set(cur, "tmp", "partial") /\ Op("open_tmp")
  /\ pc' = "write_tmp" /\ UNCHANGED <<changed, disk0, cur, status, stop>>

WriteTmp ==
  /\ Running /\ pc = "write_tmp"
  /\ Set(cur, "tmp", "new") /\ Op("write_tmp")
  /\ pc' = "rename_bk" /\ UNCHANGED <<changed, disk0, cur, status, stop>>

(* fs::rename(filename, bk_name) *)
RenameBk ==
  /\ Running /\ pc = "rename_bk"
  /\ disk' = [disk EXCEPT ![cur].bk = disk[cur].f, ![cur].f = "absent"]
  /\ Op("rename_bk")
  /\ pc' = "rename_tmp" /\ UNCHANGED <<changed, disk0, cur, status, stop>>

(* fs::rename(tmp_name, filename) *)
RenameTmp ==
  /\ Running /\ pc = "rename_tmp"
  /\ disk' = [disk EXCEPT ![cur].f = disk[cur].tmp, ![cur].tmp = "absent"]
  /\ Op("rename_tmp")
  /\ NextFile /\ UNCHANGED <<changed, disk0, stop>>

(* plain FilesEmitter: fs::write(filename, ..) = open(O_TRUNC) ; write ; close *)
OpenF ==
  /\ Running /\ pc = "open_f"
  /\ Set(cur, "f", "partial") /\ Op("open_f")
  /\ pc' = "write_f" /\ UNCHANGED <<changed, disk0, cur, status, stop>>

WriteF ==
  /\ Running /\ pc = "write_f"
  /\ Set(cur, "f", "new") /\ Op("write_f")
  /\ NextFile /\ UNCHANGED <<changed, disk0, stop>>

(* The process dies between two file-system calls (or before the first).   *)
Crash ==
  /\ FaultOps /\ Running /\ pc # "decide"
  /\ status' = "crashed" /\ stop' = "crash"
  /\ UNCHANGED <<changed, disk0, disk, cur, pc, ops>>

(* The call about to be made returns an error and has no effect; the error  *)
(* propagates (`?`) and ends the emission of this crate root.               *)
Fail ==
  /\ FaultOps /\ Running /\ pc # "decide"
  /\ status' = "failed" /\ stop' = pc
  /\ UNCHANGED <<changed, disk0, disk, cur, pc, ops>>

Next == Decide \/ OpenTmp \/ WriteTmp \/ RenameBk \/ RenameTmp
        \/ OpenF \/ WriteF \/ Crash \/ Fail

Spec == Init /\ [][Next]_vars /\ WF_vars(Decide \/ OpenTmp \/ WriteTmp \/ RenameBk
                                          \/ RenameTmp \/ OpenF \/ WriteF)

-----------------------------------------------------------------------------
(* Declarative properties, over the disk only.                              *)

Recoverable(d) == d.f = "orig" \/ d.bk = "orig"
NeverPartial(d) == d.f \in {"absent", "orig", "new"}

(* C20 clause 1+2: at every instant, crash states included.                 *)
OriginalRecoverable == Protocol = "backup" => \A i \in Files : Recoverable(disk[i])
NeverPartialTarget  == Protocol = "backup" => \A i \in Files : NeverPartial(disk[i])

(* C20 clause 3: after a successful run.                                    *)
PostOne(ch, d) ==
  IF ch THEN d.f = "new" /\ (Protocol = "backup" => d.bk = "orig" /\ d.tmp = "absent")
        ELSE TRUE
PostState == status = "done" => \A i \in Files :
                 /\ PostOne(changed[i], disk[i])
                 /\ ~changed[i] => disk[i] = disk0[i]

(* Files that were not reached by the protocol are untouched.               *)
LaterFilesUntouched ==
  \A i \in Files : i > cur => disk[i] = disk0[i]

(* plain protocol, no faults: only ever replaced by the complete text.      *)
PlainComplete ==
  (Protocol = "plain" /\ status = "done") => \A i \in Files : disk[i].f \in {"orig", "new"}

TypeOK ==
  /\ disk \in [Files -> [f : Content, tmp : Content, bk : Content]]
  /\ cur \in 1 .. NFiles + 1
  /\ status \in {"running", "done", "crashed", "failed"}

Terminates == <>(status # "running")

-----------------------------------------------------------------------------
(* Scenario generation: one line per terminal state.                        *)
Scenario ==
  [tag |-> "REPLAY", protocol |-> Protocol, nfiles |-> NFiles,
   changed |-> changed, disk0 |-> disk0, stop |-> stop, nops |-> Len(ops),
   ops |-> ops, status |-> status, disk |-> disk]

Emit == status # "running" => PrintT(ToJson(Scenario))

View == <<changed, disk0, disk, cur, pc, status, stop>>
=============================================================================
