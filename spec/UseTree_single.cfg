SPECIFICATION Spec
CONSTANTS
  NNames = 2
  NAlias = 1
  NItems = 1
  Grans = {"Item", "Module", "Crate", "One"}
  Viss = {"priv"}
  MaxList = 3
INVARIANTS Scenario
CHECK_DEADLOCK FALSE
