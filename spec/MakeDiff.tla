------------------------------ MODULE MakeDiff ------------------------------
(***************************************************************************)
(* Transcription of `make_diff` (src/rustfmt_diff.rs) and of the reports   *)
(* derived from it (ModifiedLines, json blocks, checkstyle entries), with  *)
(* the declarative clauses of property C12.                                *)
(*                                                                         *)
(* The control flow of make_diff depends only on the edit script produced  *)
(* by `diff::lines(a, b)` -- a sequence over                                *)
(*    "L" (line only in a, the original),                                   *)
(*    "R" (line only in b, the formatted text),                             *)
(*    "B" (line in both)                                                    *)
(* -- never on line contents, so lines are identified by their index:       *)
(* the k-th element of the script is original line OIdx(k) and/or formatted *)
(* line FIdx(k).                                                            *)
(***************************************************************************)
EXTENDS Naturals, Sequences, FiniteSets, TLC, Json

CONSTANTS MaxLen,     \* bound on the script length
          Contexts    \* set of context sizes explored

Tags == {"L", "R", "B"}

VARIABLES script,   \* the whole script (chosen in Init; fed one element at a time)
          ctx,      \* context size
          k,        \* next script element to process; Len(script) + 2 when finalised
          ln,       \* line_number       (formatted side), 1-based
          lno,      \* line_number_orig  (original side), 1-based
          queue,    \* context_queue: sequence of script positions
          lsm,      \* lines_since_mismatch
          cur,      \* the open Mismatch: [ln, lno, lines]
          results   \* closed mismatches

vars == <<script, ctx, k, ln, lno, queue, lsm, cur, results>>

Count(s, n, set) == Cardinality({j \in 1 .. n : s[j] \in set})
OIdx(s, j) == Count(s, j, {"L", "B"})   \* index in the original of script element j
FIdx(s, j) == Count(s, j, {"R", "B"})   \* index in the formatted text

Line(tag, pos) == [t |-> tag, p |-> pos]   \* tag: "C" context, "R" resulting (orig), "E" expected (fmt)
NewMismatch(a, b) == [ln |-> a, lno |-> b, lines |-> <<>>]

RECURSIVE Scripts(_)
Scripts(n) == IF n = 0 THEN {<<>>} ELSE
               LET S == Scripts(n - 1) IN S \cup {Append(s, t) : s \in {x \in S : Len(x) = n - 1}, t \in Tags}

Init ==
  /\ script \in Scripts(MaxLen)
  /\ ctx \in Contexts
  /\ k = 1 /\ ln = 1 /\ lno = 1 /\ queue = <<>>
  /\ lsm = ctx + 1
  /\ cur = NewMismatch(0, 0)
  /\ results = <<>>

Ctx(q) == [j \in 1 .. Len(q) |-> Line("C", q[j])]

(* diff::Result::Left / Right *)
StepChange(tag) ==
  LET open   == lsm >= ctx /\ lsm > 0
      res1   == IF open THEN Append(results, cur) ELSE results
      base   == IF open THEN NewMismatch(ln - Len(queue), lno - Len(queue)) ELSE cur
      withQ  == [base EXCEPT !.lines = @ \o Ctx(queue)]
  IN /\ results' = res1
     /\ cur' = [withQ EXCEPT !.lines = Append(@, Line(IF tag = "L" THEN "R" ELSE "E", k))]
     /\ queue' = <<>>
     /\ IF tag = "L" THEN lno' = lno + 1 /\ ln' = ln ELSE ln' = ln + 1 /\ lno' = lno
     /\ lsm' = 0

(* diff::Result::Both *)
StepBoth ==
  LET q1 == IF Len(queue) >= ctx /\ Len(queue) > 0 THEN Tail(queue) ELSE queue
  IN /\ IF lsm < ctx
          THEN cur' = [cur EXCEPT !.lines = Append(@, Line("C", k))] /\ queue' = q1
          ELSE IF ctx > 0 THEN queue' = Append(q1, k) /\ cur' = cur
               ELSE queue' = q1 /\ cur' = cur
     /\ ln' = ln + 1 /\ lno' = lno + 1 /\ lsm' = lsm + 1
     /\ results' = results

Step ==
  /\ k <= Len(script)
  /\ IF script[k] = "B" THEN StepBoth ELSE StepChange(script[k])
  /\ k' = k + 1
  /\ UNCHANGED <<script, ctx>>

(* results.push(mismatch); results.remove(0); *)
Finish ==
  /\ k = Len(script) + 1
  /\ results' = Tail(Append(results, cur))
  /\ k' = k + 1
  /\ UNCHANGED <<script, ctx, ln, lno, queue, lsm, cur>>

Next == Step \/ Finish
Spec == Init /\ [][Next]_vars

Done == k = Len(script) + 2

-----------------------------------------------------------------------------
(* Declarative clauses, on (script, ctx, hunks) only.                       *)

OLen(s) == OIdx(s, Len(s))
FLen(s) == FIdx(s, Len(s))

(* Walk a hunk from its stated line numbers: every line must be the line    *)
(* found at that position of the corresponding text.                        *)
RECURSIVE WalkOK(_, _, _, _, _)
WalkOK(s, lines, j, a, b) ==      \* a: formatted position, b: original position
  IF j > Len(lines) THEN TRUE
  ELSE LET x == lines[j] IN
       CASE x.t = "C" -> /\ s[x.p] = "B" /\ FIdx(s, x.p) = a /\ OIdx(s, x.p) = b
                         /\ WalkOK(s, lines, j + 1, a + 1, b + 1)
         [] x.t = "R" -> /\ s[x.p] = "L" /\ OIdx(s, x.p) = b
                         /\ WalkOK(s, lines, j + 1, a, b + 1)
         [] x.t = "E" -> /\ s[x.p] = "R" /\ FIdx(s, x.p) = a
                         /\ WalkOK(s, lines, j + 1, a + 1, b)
         [] OTHER -> FALSE

HunkConsistent(s, hs) == \A h \in 1 .. Len(hs) : WalkOK(s, hs[h].lines, 1, hs[h].ln, hs[h].lno)

NChanged(h, tag) == Cardinality({j \in 1 .. Len(h.lines) : h.lines[j].t = tag})
NLines(h, tags) == Cardinality({j \in 1 .. Len(h.lines) : h.lines[j].t \in tags})

(* hunks are in order and do not overlap on either side *)
Ordered(hs) ==
  \A h \in 1 .. Len(hs) - 1 :
     /\ hs[h].ln  + NLines(hs[h], {"C", "E"}) <= hs[h + 1].ln
     /\ hs[h].lno + NLines(hs[h], {"C", "R"}) <= hs[h + 1].lno

(* every changed line of the script is reported exactly once *)
Covers(s, hs) ==
  \A j \in 1 .. Len(s) : s[j] # "B" =>
     Cardinality({<<h, i>> \in (1 .. Len(hs)) \X (1 .. MaxLen + 1) :
                    i <= Len(hs[h].lines) /\ hs[h].lines[i].p = j
                    /\ hs[h].lines[i].t # "C"}) = 1

EmptyIff(s, hs) == (hs = <<>>) <=> (\A j \in 1 .. Len(s) : s[j] = "B")

NoEmptyHunk(hs) == \A h \in 1 .. Len(hs) : NLines(hs[h], {"R", "E"}) > 0

(* context really is at most ctx lines on each side and hunks closer than   *)
(* the context are merged (no two hunks touch).                             *)
ContextBound(c, hs) ==
  \A h \in 1 .. Len(hs) :
    LET L == hs[h].lines
        first == CHOOSE j \in 1 .. Len(L) : L[j].t # "C" /\ \A i \in 1 .. j - 1 : L[i].t = "C"
        last  == CHOOSE j \in 1 .. Len(L) : L[j].t # "C" /\ \A i \in j + 1 .. Len(L) : L[i].t = "C"
    IN first - 1 <= c /\ Len(L) - last <= c

(* ModifiedLines::from (context 0): chunk = (lno, #R, E lines); applying    *)
(* the chunks to the original gives the formatted text.                     *)
Chunk(h) == [at |-> h.lno, removed |-> NChanged(h, "R"),
             added |-> SelectSeq(h.lines, LAMBDA x : x.t = "E")]

RECURSIVE ApplyFrom(_, _, _, _)
(* returns the sequence of formatted-line indices produced from original    *)
(* position b onwards, given the remaining chunks                           *)
ApplyFrom(s, hs, h, b) ==
  IF h > Len(hs)
    THEN [j \in 1 .. (OLen(s) - b + 1) |-> <<"o", b + j - 1>>]
    ELSE LET c == Chunk(hs[h]) IN
         IF c.at < b THEN <<<<"bad", 0>>>>
         ELSE [j \in 1 .. (c.at - b) |-> <<"o", b + j - 1>>]
              \o [j \in 1 .. Len(c.added) |-> <<"f", FIdx(s, c.added[j].p)>>]
              \o ApplyFrom(s, hs, h + 1, c.at + c.removed)

(* the formatted text as a sequence of the same tokens: original line b     *)
(* (for B elements) or formatted-only line                                   *)
FmtAsTokens(s) ==
  LET idx == SelectSeq([j \in 1 .. Len(s) |-> j], LAMBDA j : s[j] # "L")
  IN [i \in 1 .. Len(idx) |->
        IF s[idx[i]] = "B" THEN <<"o", OIdx(s, idx[i])>> ELSE <<"f", FIdx(s, idx[i])>>]

ApplyOK(s, c, hs) == c = 0 => ApplyFrom(s, hs, 1, 1) = FmtAsTokens(s)

(* json block numbers (src/emitter/json.rs) and checkstyle line numbers      *)
JsonBlock(h) ==
  LET nr == NChanged(h, "R")  ne == NChanged(h, "E") IN
  [ob |-> h.lno, oe |-> IF nr = 0 THEN h.lno ELSE h.lno + nr - 1,
   eb |-> h.ln,  ee |-> IF ne = 0 THEN h.ln  ELSE h.ln + ne - 1]

(* with context 0 the removed lines are exactly original lines ob..oe and   *)
(* the added lines formatted lines eb..ee                                   *)
JsonOK(s, c, hs) ==
  c = 0 => \A h \in 1 .. Len(hs) :
     LET b == JsonBlock(hs[h])
         R == SelectSeq(hs[h].lines, LAMBDA x : x.t = "R")
         E == SelectSeq(hs[h].lines, LAMBDA x : x.t = "E")
     IN /\ \A j \in 1 .. Len(R) : OIdx(s, R[j].p) = b.ob + j - 1
        /\ \A j \in 1 .. Len(E) : FIdx(s, E[j].p) = b.eb + j - 1

Declarative(s, c, hs) ==
  /\ HunkConsistent(s, hs) /\ Ordered(hs) /\ Covers(s, hs) /\ EmptyIff(s, hs)
  /\ NoEmptyHunk(hs) /\ ContextBound(c, hs) /\ ApplyOK(s, c, hs) /\ JsonOK(s, c, hs)

(* operational => declarative *)
Correct == Done => Declarative(script, ctx, results)

TypeOK == /\ k \in 1 .. MaxLen + 2 /\ lsm \in 0 .. MaxLen + 4 /\ Len(queue) <= ctx

-----------------------------------------------------------------------------
Flat(hs) == [h \in 1 .. Len(hs) |->
               [ln |-> hs[h].ln, lno |-> hs[h].lno,
                lines |-> [j \in 1 .. Len(hs[h].lines) |->
                             <<hs[h].lines[j].t,
                               IF hs[h].lines[j].t = "E" THEN FIdx(script, hs[h].lines[j].p)
                               ELSE OIdx(script, hs[h].lines[j].p)>>]]]

Emit == Done => PrintT(ToJson([tag |-> "REPLAY", script |-> script, ctx |-> ctx,
                               hunks |-> Flat(results)]))
=============================================================================
