---------------------------- MODULE MakeDiffObs -----------------------------
(***************************************************************************)
(* Declarative clauses of C12 evaluated by TLC on the ACTUAL outputs of    *)
(* the real make_diff / ModifiedLines / json / checkstyle code.            *)
(* One record per (original, formatted, context) triple; line contents are *)
(* small integers (the harness numbers the distinct lines of each pair).   *)
(*  {orig:[c..], fmt:[c..], ctx, hunks:[{ln,lno,lines:[[tag,c]..]}],      *)
(*   chunks:[{at,removed,added:[c..]}], reparsed: same shape,               *)
(*   json:[{ob,oe,eb,ee,orig:[c..],exp:[c..]}], cs:[[line,c]..],           *)
(*   has: {ml:b, json:b, cs:b}, json_wf:b, cs_wf:b}                         *)
(***************************************************************************)
EXTENDS Naturals, Sequences, FiniteSets, TLC, Json, IOUtils

Rec == ndJsonDeserialize(IOEnv.TRACE)

VARIABLE l
Init == l = 1
Next == l < Len(Rec) /\ l' = l + 1
Spec == Init /\ [][Next]_l

R == Rec[l]

RECURSIVE WalkOK(_, _, _, _, _, _)
WalkOK(orig, fmt, lines, j, a, b) ==
  IF j > Len(lines) THEN TRUE
  ELSE LET t == lines[j][1]  c == lines[j][2] IN
       CASE t = "C" -> /\ a <= Len(fmt) /\ b <= Len(orig) /\ fmt[a] = c /\ orig[b] = c
                       /\ WalkOK(orig, fmt, lines, j + 1, a + 1, b + 1)
         [] t = "R" -> /\ b <= Len(orig) /\ orig[b] = c
                       /\ WalkOK(orig, fmt, lines, j + 1, a, b + 1)
         [] t = "E" -> /\ a <= Len(fmt) /\ fmt[a] = c
                       /\ WalkOK(orig, fmt, lines, j + 1, a + 1, b)
         [] OTHER -> FALSE

N(h, tags) == Cardinality({j \in 1 .. Len(h.lines) : h.lines[j][1] \in tags})

HunkConsistent ==
  \A h \in 1 .. Len(R.hunks) :
     /\ R.hunks[h].ln >= 1 /\ R.hunks[h].lno >= 1
     /\ WalkOK(R.orig, R.fmt, R.hunks[h].lines, 1, R.hunks[h].ln, R.hunks[h].lno)

Ordered ==
  \A h \in 1 .. Len(R.hunks) - 1 :
     /\ R.hunks[h].ln  + N(R.hunks[h], {"C", "E"}) <= R.hunks[h + 1].ln
     /\ R.hunks[h].lno + N(R.hunks[h], {"C", "R"}) <= R.hunks[h + 1].lno

EmptyIff == (R.hunks = <<>>) <=> (R.orig = R.fmt)

NoEmptyHunk == \A h \in 1 .. Len(R.hunks) : N(R.hunks[h], {"R", "E"}) > 0

(* lines outside every hunk are common to both texts at shifted positions:  *)
(* the hunks account for every difference.                                   *)
RECURSIVE Rebuild(_, _, _)
Rebuild(chunks, h, b) ==      \* apply chunks to R.orig from original position b
  IF h > Len(chunks)
    THEN IF b > Len(R.orig) + 1 THEN <<999999>> ELSE SubSeq(R.orig, b, Len(R.orig))
    ELSE LET c == chunks[h] IN
         IF c.at < b \/ c.at + c.removed - 1 > Len(R.orig) THEN <<999999>>
         ELSE SubSeq(R.orig, b, c.at - 1) \o c.added \o Rebuild(chunks, h + 1, c.at + c.removed)

(* modified-lines report (context 0) applied to the original = formatted    *)
ApplyOK == R.has.ml => Rebuild(R.chunks, 1, 1) = R.fmt
RoundTrip == R.has.ml => R.reparsed = R.chunks
ChunksFromHunks ==
  (R.has.ml /\ R.ctx = 0) =>
     /\ Len(R.chunks) = Len(R.hunks)
     /\ \A h \in 1 .. Len(R.hunks) :
          /\ R.chunks[h].at = R.hunks[h].lno
          /\ R.chunks[h].removed = N(R.hunks[h], {"R"})

(* any context size: the hunks alone rebuild the formatted text              *)
HunkChunks ==
  [h \in 1 .. Len(R.hunks) |->
     LET L == R.hunks[h].lines
         lead == Cardinality({j \in 1 .. Len(L) : \A i \in 1 .. j : L[i][1] = "C"})
         kept == SelectSeq(L, LAMBDA x : x[1] \in {"C", "E"})
     IN [at |-> R.hunks[h].lno, removed |-> N(R.hunks[h], {"C", "R"}),
         added |-> [j \in 1 .. Len(kept) |-> kept[j][2]]]]
HunksRebuild == Rebuild(HunkChunks, 1, 1) = R.fmt

JsonOK ==
  R.has.json =>
     /\ R.json_wf
     /\ Len(R.json) = Len(R.hunks)
     /\ \A h \in 1 .. Len(R.json) :
          LET b == R.json[h] IN
          /\ b.ob >= 1 /\ b.eb >= 1
          /\ Len(b.orig) > 0 => (b.oe = b.ob + Len(b.orig) - 1 /\ b.oe <= Len(R.orig)
                                  /\ SubSeq(R.orig, b.ob, b.oe) = b.orig)
          /\ Len(b.orig) = 0 => b.oe = b.ob
          /\ Len(b.exp) > 0 => (b.ee = b.eb + Len(b.exp) - 1 /\ b.ee <= Len(R.fmt)
                                 /\ SubSeq(R.fmt, b.eb, b.ee) = b.exp)
          /\ Len(b.exp) = 0 => b.ee = b.eb
     (* the blocks are the modified-lines chunks under another name *)
     /\ R.has.ml => \A h \in 1 .. Len(R.json) :
          /\ R.json[h].ob = R.chunks[h].at
          /\ Len(R.json[h].orig) = R.chunks[h].removed
          /\ R.json[h].exp = R.chunks[h].added

CheckstyleOK ==
  R.has.cs =>
     /\ R.cs_wf
     /\ \A j \in 1 .. Len(R.cs) : R.cs[j][1] >= 1 /\ R.cs[j][1] <= Len(R.fmt)
                                   /\ R.fmt[R.cs[j][1]] = R.cs[j][2]
     /\ R.has.ml => Len(R.cs) = Cardinality({<<h, j>> \in (1 .. Len(R.chunks)) \X (1 .. Len(R.fmt) + 1) :
                                                j <= Len(R.chunks[h].added)})

ContextBound ==
  \A h \in 1 .. Len(R.hunks) :
    LET L == R.hunks[h].lines
        lead  == Cardinality({j \in 1 .. Len(L) : \A i \in 1 .. j : L[i][1] = "C"})
        trail == Cardinality({j \in 1 .. Len(L) : \A i \in j .. Len(L) : L[i][1] = "C"})
    IN lead <= R.ctx /\ trail <= R.ctx

Names == {"HunkConsistent", "Ordered", "EmptyIff", "NoEmptyHunk", "ApplyOK", "RoundTrip",
          "ChunksFromHunks", "HunksRebuild", "JsonOK", "CheckstyleOK", "ContextBound"}
Holds(n) ==
  CASE n = "HunkConsistent" -> HunkConsistent
    [] n = "Ordered" -> Ordered
    [] n = "EmptyIff" -> EmptyIff
    [] n = "NoEmptyHunk" -> NoEmptyHunk
    [] n = "ApplyOK" -> ApplyOK
    [] n = "RoundTrip" -> RoundTrip
    [] n = "ChunksFromHunks" -> ChunksFromHunks
    [] n = "HunksRebuild" -> HunksRebuild
    [] n = "JsonOK" -> JsonOK
    [] n = "CheckstyleOK" -> CheckstyleOK
    [] n = "ContextBound" -> ContextBound
ReportInv ==
  LET F == {n \in Names : ~Holds(n)}
  IN F = {} \/ PrintT(ToJson([tag |-> "FAIL", l |-> l, fails |-> F]))
=============================================================================
