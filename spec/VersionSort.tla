---------------------------- MODULE VersionSort -----------------------------
(* TLC: every triple of identifiers up to MaxLen over Alphabet.               *)
EXTENDS VersionSortCore, TLC, Json
CONSTANTS Alphabet, MaxLen, Extra

RECURSIVE Idents(_)
Idents(n) == IF n = 0 THEN {<<>>} ELSE
              LET P == Idents(n - 1) IN P \cup {Append(s, x) : s \in {q \in P : Len(q) = n - 1}, x \in Alphabet}
Ids == (Idents(MaxLen) \ {<<>>}) \cup Extra

VARIABLES a, b, c
Init == a \in Ids /\ b \in Ids /\ c \in Ids
Next == UNCHANGED <<a, b, c>>
Spec == Init /\ [][Next]_<<a, b, c>>

Reflexive == VersionSort(a, a) = "E"
Antisymmetric == VersionSort(a, b) = Rev(VersionSort(b, a))
Transitive == (Leq(VersionSort(a, b)) /\ Leq(VersionSort(b, c))) => Leq(VersionSort(a, c))
(* equivalence is a congruence for the order (needed for "ranked equal") *)
EquivTransitive == (VersionSort(a, b) = "E" /\ VersionSort(b, c) = "E") => VersionSort(a, c) = "E"
=============================================================================
