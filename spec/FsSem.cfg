SPECIFICATION Spec
INVARIANTS OriginalRecoverable NeverPartialTarget ReadOnly TouchOnlyChanged PostState
POSTCONDITION Accepted
