--------------------------- MODULE FileLinesCore ----------------------------
(***************************************************************************)
(* src/config/file_lines.rs: Range::{is_empty, contains, intersects,       *)
(* adjacent_to, merge}, normalize_ranges and the FileLines queries, with   *)
(* the set-of-lines meaning of a selection.  Property C17 (range algebra). *)
(* A range is <<lo, hi>>; lo > hi is the empty range.                      *)
(***************************************************************************)
EXTENDS Naturals, Sequences, FiniteSets

Min(a, b) == IF a < b THEN a ELSE b
Max(a, b) == IF a > b THEN a ELSE b
Empty(r) == r[1] > r[2]
RContains(a, b) == IF Empty(b) THEN TRUE ELSE ~Empty(a) /\ a[1] <= b[1] /\ a[2] >= b[2]
RIntersects(a, b) == IF Empty(a) \/ Empty(b) THEN FALSE
                     ELSE (a[1] <= b[2] /\ b[2] <= a[2]) \/ (b[1] <= a[2] /\ a[2] <= b[2])
RAdjacent(a, b) == IF Empty(a) \/ Empty(b) THEN FALSE
                   ELSE a[2] + 1 = b[1] \/ b[2] + 1 = a[1]
CanMerge(a, b) == RAdjacent(a, b) \/ RIntersects(a, b)
Merge(a, b) == <<Min(a[1], b[1]), Max(a[2], b[2])>>

(* derived Ord on Range: lo, then hi *)
Less(a, b) == a[1] < b[1] \/ (a[1] = b[1] /\ a[2] <= b[2])
RECURSIVE Insert(_, _)
Insert(x, s) == IF s = <<>> THEN <<x>>
                ELSE IF Less(x, Head(s)) THEN <<x>> \o s ELSE <<Head(s)>> \o Insert(x, Tail(s))
RECURSIVE Sort(_)
Sort(s) == IF s = <<>> THEN <<>> ELSE Insert(Head(s), Sort(Tail(s)))

(* normalize_ranges: after sorting, fold each range into the accumulator while it merges *)
RECURSIVE Absorb(_, _), NormSorted(_)
Absorb(acc, rest) ==    \* returns <<merged range, remaining sequence>>
  IF rest # <<>> /\ CanMerge(acc, Head(rest)) THEN Absorb(Merge(acc, Head(rest)), Tail(rest))
  ELSE <<acc, rest>>
NormSorted(s) == IF s = <<>> THEN <<>>
                 ELSE LET a == Absorb(Head(s), Tail(s)) IN <<a[1]>> \o NormSorted(a[2])
Normalize(s) == NormSorted(Sort(SelectSeq(s, LAMBDA r : ~Empty(r))))   \* retain non-empty

AnyRange(rs, P(_)) == \E i \in 1 .. Len(rs) : P(rs[i])
ContainsLine(rs, n) == AnyRange(rs, LAMBDA r : r[1] <= n /\ r[2] >= n)
ContainsRange(rs, lo, hi) == AnyRange(rs, LAMBDA r : RContains(r, <<lo, hi>>))
Intersects(rs, lo, hi) == AnyRange(rs, LAMBDA r : RIntersects(r, <<lo, hi>>))

(* ---- declarative ---- *)
LinesOf(s) == UNION {{n \in s[i][1] .. s[i][2] : TRUE} : i \in 1 .. Len(s)}
=============================================================================
