---------------------------- MODULE LineScanObs -----------------------------
(* C07's definitions evaluated by TLC on observed runs of the real line      *)
(* scanner (exported `format_lines`, or a whole rustfmt run whose output was  *)
(* classified by an independent lexer).                                       *)
(* Record: {cfg:{mw,ts,eoo,eou}, syms:[..], skipped:[[lo,hi]..], sel_all:b,    *)
(*          sel:[n..], reports:[[line,kind]..], tail_in, tail_out}            *)
EXTENDS LineScanCore, TLC, Json, IOUtils
Rec == ndJsonDeserialize(IOEnv.TRACE)
VARIABLE l
Init == l = 1
Next == l < Len(Rec) /\ l' = l + 1
Spec == Init /\ [][Next]_l
R == Rec[l]

AsSet(s) == {s[j] : j \in 1 .. Len(s)}
NLines == Cardinality({j \in 1 .. Len(R.syms) : R.syms[j] \in LFs})
Sel == IF R.sel_all THEN 1 .. NLines + 1 ELSE AsSet(R.sel)
Skipped == AsSet(R.skipped)

RECURSIVE Fold(_, _, _, _, _, _)
(* acc = [op, must, may] sets of <<line, kind>> *)
Fold(i, st, g, n, acc, dummy) ==
  IF i > Len(R.syms) THEN acc
  ELSE LET s == R.syms[i] IN
       IF s \in LFs
         THEN LET r == NewLine(st, s, R.cfg, Skipped, Sel)
                  e == Expected(g, s, n, R.cfg, Skipped, Sel)
              IN Fold(i + 1, r.st, G0, n + 1,
                      [op |-> acc.op \cup r.reps,
                       must |-> acc.must \cup {<<n, k>> : k \in e.must},
                       may |-> acc.may \cup {<<n, k>> : k \in e.may}], dummy)
         ELSE Fold(i + 1, Char(st, s, R.cfg), GChar(g, s, R.cfg), n, acc, dummy)

Res == Fold(1, St0(Sel), G0, 1, [op |-> {}, must |-> {}, may |-> {}], 0)
Obs == {<<x[1], x[2]>> : x \in AsSet(R.reports)}

(* property level *)
Exact == LET r == Res IN r.must \subseteq Obs /\ Obs \subseteq r.may
(* exactly the surplus terminators are removed *)
OneFinalNewline == R.tail_in >= 1 => R.tail_out = 1
(* drift level *)
AsModel == Obs = Res.op

ReportInv ==
  LET F == {n \in {"Exact", "OneFinalNewline", "AsModel"} :
              ~(CASE n = "Exact" -> Exact [] n = "OneFinalNewline" -> OneFinalNewline
                  [] n = "AsModel" -> AsModel)}
  IN F = {} \/ PrintT(ToJson([tag |-> "FAIL", l |-> l, fails |-> F, must |-> Res.must,
                               may |-> Res.may, op |-> Res.op]))
=============================================================================
