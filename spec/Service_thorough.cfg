SPECIFICATION Spec
CONSTANTS
  Files <- MCFiles
  Dir <- MCDir
  Parent <- MCParent
  CfgAt <- MCCfgAt
  Status <- MCStatus
  MaxLen = 4
INVARIANTS Functional ExitIsMax ConfigRestored Emit
PROPERTY Terminates
