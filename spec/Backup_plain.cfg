SPECIFICATION Spec
CONSTANTS
  NFiles = 3
  Protocol = "plain"
  FaultOps = TRUE
  Pre = {"absent", "stale"}
INVARIANTS TypeOK OriginalRecoverable NeverPartialTarget PostState LaterFilesUntouched PlainComplete Emit
PROPERTY Terminates
