------------------------------ MODULE CargoFmt ------------------------------
(***************************************************************************)
(* `cargo fmt` (src/cargo-fmt/main.rs): which rustfmt invocations are made *)
(* for a workspace, a selection strategy and a working directory.          *)
(* Property C18.                                                           *)
(*                                                                         *)
(*  Decl* : the DECLARATIVE meaning (selected packages -> root files of    *)
(*          their targets, each once, grouped by edition; exit status      *)
(*          non-zero exactly when some invocation failed).                 *)
(*  Op*   : the OPERATIONAL transcription of get_targets_root_only /       *)
(*          get_targets_recursive (visited keyed by dependency NAME) /     *)
(*          get_targets_with_hitlist / run_rustfmt.                        *)
(*                                                                         *)
(* One ndjson record = one scenario:                                       *)
(*  packages : [{name, dir, member, edition, targets:[{kind,path}],        *)
(*               deps:[{name, dir}]}]   (dir/path = sequences of comps)    *)
(*  ws_root, cwd : directories;  strategy : "root" | "all" | "some";       *)
(*  hit : [names];  status : [[edition, st]] with st 0 | 1 | 2 | 9 (9 =    *)
(*  killed by a signal);  and after replay: inv:[{edition, files}], exit.  *)
(***************************************************************************)
EXTENDS Naturals, Sequences, FiniteSets, TLC, Json, IOUtils

Rec == ndJsonDeserialize(IOEnv.TRACE)
VARIABLE l
Init == l = 1
Next == l < Len(Rec) /\ l' = l + 1
Spec == Init /\ [][Next]_l
S == Rec[l]

AsSet(s) == {s[j] : j \in 1 .. Len(s)}
Pkgs == AsSet(S.packages)
Members == {p \in Pkgs : p.member}
IsPrefix(a, b) == Len(a) <= Len(b) /\ SubSeq(b, 1, Len(a)) = a
PkgAt(d) == {p \in Pkgs : p.dir = d}
StatusOf(e) == LET hit == {x \in AsSet(S.status) : x[1] = e} IN
               IF hit = {} THEN 0 ELSE (CHOOSE x \in hit : TRUE)[2]

ERR == [err |-> TRUE, pk |-> {}]
OKP(ps) == [err |-> FALSE, pk |-> ps]

-----------------------------------------------------------------------------
(* Declarative selection.                                                   *)
Current ==
  LET c == {p \in Members : IsPrefix(p.dir, S.cwd)} IN
  IF c = {} THEN {} ELSE {CHOOSE p \in c : \A q \in c : Len(q.dir) <= Len(p.dir)}

RECURSIVE Closure(_)
Closure(ps) ==
  LET nxt == ps \cup UNION {PkgAt(d.dir) : d \in UNION {AsSet(p.deps) : p \in ps}} IN
  IF nxt = ps THEN ps ELSE Closure(nxt)

DeclSelected ==
  CASE S.strategy = "root" ->
         IF S.cwd = S.ws_root THEN OKP(Members)
         ELSE IF Current = {} THEN ERR ELSE OKP(Current)
    [] S.strategy = "some" ->
         IF AsSet(S.hit) \subseteq {p.name : p \in Members}
           THEN OKP({p \in Members : p.name \in AsSet(S.hit)}) ELSE ERR
    [] OTHER -> OKP(Closure(Members))

TargetsOf(ps) == UNION {{[path |-> t.path, edition |-> p.edition] : t \in AsSet(p.targets)} : p \in ps}
(* one invocation per edition, naming each root file once *)
Invs(ts) == {[edition |-> e, files |-> {t.path : t \in {x \in ts : x.edition = e}}] :
               e \in {t.edition : t \in ts}}
DeclInvs == IF DeclSelected.err \/ TargetsOf(DeclSelected.pk) = {} THEN {}
            ELSE Invs(TargetsOf(DeclSelected.pk))
DeclExitNonZero ==
  DeclSelected.err \/ TargetsOf(DeclSelected.pk) = {}
  \/ \E i \in DeclInvs : StatusOf(i.edition) # 0

-----------------------------------------------------------------------------
(* Operational.                                                             *)
OpRoot ==
  LET inRoot == S.ws_root = S.cwd IN
  IF Cardinality(Members) = 1 THEN OKP(Members)
  ELSE (* the current package's manifest is the nearest Cargo.toml at or above cwd *)
       LET holders == {p \in Pkgs : IsPrefix(p.dir, S.cwd)} \cup
                      (IF IsPrefix(S.ws_root, S.cwd) THEN {[dir |-> S.ws_root]} ELSE {})
           nearest == IF holders = {} THEN <<"?">>
                      ELSE (CHOOSE h \in holders : \A q \in holders : Len(q.dir) <= Len(h.dir)).dir
       IN OKP({p \in Members : inRoot \/ p.dir = nearest})

(* get_targets_recursive; `visited` holds dependency NAMES *)
RECURSIVE OpRec(_, _, _)
OpRec(todo, acc, visited) ==      \* todo: sequence of [pk, meta] pairs still to process
  IF todo = <<>> THEN acc
  ELSE LET p == Head(todo).pk
           meta == Head(todo).meta      \* the packages `cargo metadata` listed for p's manifest
           fresh == {d \in AsSet(p.deps) :
                       /\ d.name \notin visited
                       /\ PkgAt(d.dir) # {}
                       /\ ~\E q \in meta : q.dir = d.dir}
           newpk == UNION {PkgAt(d.dir) : d \in fresh}
           more == [j \in 1 .. Cardinality(newpk) |->
                      LET q == CHOOSE f \in [1 .. Cardinality(newpk) -> newpk] :
                                   \A a, b \in 1 .. Cardinality(newpk) : a # b => f[a] # f[b]
                      IN [pk |-> q[j], meta |-> {q[j]}]]
       IN OpRec(Tail(todo) \o more, acc \cup {p}, visited \cup {d.name : d \in fresh})
OpAll ==
  LET ms == CHOOSE f \in [1 .. Cardinality(Members) -> Members] :
              \A a, b \in 1 .. Cardinality(Members) : a # b => f[a] # f[b]
  IN OKP(OpRec([j \in 1 .. Cardinality(Members) |-> [pk |-> ms[j], meta |-> Members]], {}, {}))

OpSome ==
  IF AsSet(S.hit) \subseteq {p.name : p \in Members}
    THEN OKP({p \in Members : p.name \in AsSet(S.hit)}) ELSE ERR

OpSelected == CASE S.strategy = "root" -> OpRoot [] S.strategy = "some" -> OpSome [] OTHER -> OpAll
OpInvs == IF OpSelected.err \/ TargetsOf(OpSelected.pk) = {} THEN {}
          ELSE Invs(TargetsOf(OpSelected.pk))
(* run_rustfmt: first non-success status (a signal counts as failure 1) *)
OpExitNonZero ==
  OpSelected.err \/ TargetsOf(OpSelected.pk) = {}
  \/ \E i \in OpInvs : StatusOf(i.edition) # 0

-----------------------------------------------------------------------------
HasObs == "inv" \in DOMAIN S
ObsInvs == {[edition |-> x.edition, files |-> AsSet(x.files)] : x \in AsSet(S.inv)}
EachOnce == \A x \in AsSet(S.inv) : Len(x.files) = Cardinality(AsSet(x.files))

ModelAgrees == OpInvs = DeclInvs /\ (OpExitNonZero <=> DeclExitNonZero)
(* `the current package' is undefined in a directory of the workspace that belongs to no     *)
(* member (and is not the workspace root): the property names no selection there, so both    *)
(* outcomes cargo itself knows are accepted -- an error, or every member                      *)
NoCurrent == S.strategy = "root" /\ S.cwd # S.ws_root /\ Current = {}
AllInvs == IF TargetsOf(Members) = {} THEN {} ELSE Invs(TargetsOf(Members))
(* `exactly the root files of all targets of the selected packages, each file once, each with  *)
(* the edition declared for its target': when several targets share a root file, the file is    *)
(* passed once, with the edition of one of them                                                 *)
Exactly(ts) ==
  LET files(x) == x.files IN
  /\ UNION {x.files : x \in ObsInvs} = {t.path : t \in ts}
  /\ \A x \in ObsInvs : \A f \in x.files : [path |-> f, edition |-> x.edition] \in ts
  /\ \A x, y \in ObsInvs : x # y => x.files \cap y.files = {}
  /\ \A x, y \in ObsInvs : x.edition = y.edition => x = y
  /\ \A x \in ObsInvs : x.files # {}
DeclTargets == IF DeclSelected.err THEN {} ELSE TargetsOf(DeclSelected.pk)
(* an unusable --manifest-path (no such file, or not a manifest) is an error before anything  *)
(* is formatted -- whatever package the working directory happens to lie in                   *)
BadManifest == "mp" \in DOMAIN S /\ S.mp \in {"missing", "malformed"}
Judged == HasObs /\ ~BadManifest
ManifestError == (HasObs /\ BadManifest) => (S.inv = <<>> /\ S.exit # 0)
RightTargets ==
  Judged => /\ (Exactly(DeclTargets) \/ (NoCurrent /\ Exactly(TargetsOf(Members))))
            /\ EachOnce /\ Len(S.inv) = Cardinality(ObsInvs)
(* (the invocations themselves are judged by RightTargets; the status follows the ones made) *)
ObsExitNonZero == DeclSelected.err \/ DeclTargets = {} \/ \E i \in ObsInvs : StatusOf(i.edition) # 0
RightExit ==
  Judged => \/ ((S.exit # 0) <=> ObsExitNonZero)
            \/ (NoCurrent /\ Exactly(TargetsOf(Members)) /\ ObsInvs # {}
                  /\ ((S.exit # 0) <=> \E i \in ObsInvs : StatusOf(i.edition) # 0))
AsModel == Judged => ObsInvs = OpInvs /\ ((S.exit # 0) <=> OpExitNonZero)

ReportInv ==
  LET F == {n \in {"ModelAgrees", "RightTargets", "RightExit", "AsModel", "ManifestError"} :
              ~(CASE n = "ModelAgrees" -> ModelAgrees [] n = "RightTargets" -> RightTargets
                  [] n = "ManifestError" -> ManifestError
                  [] n = "RightExit" -> RightExit [] n = "AsModel" -> AsModel)}
  IN PrintT(ToJson([tag |-> "RES", l |-> l, fails |-> F, decl_err |-> DeclSelected.err,
                    op_err |-> OpSelected.err]))
=============================================================================
