----------------------------- MODULE ImportsObs -----------------------------
(***************************************************************************)
(* C10: import rewriting preserves what is imported -- the declarative     *)
(* denotation `Leaves` (DESIGN.md F.2) evaluated by TLC on the `use` items *)
(* of the input and of the emitted text, both parsed by rustc_parse.       *)
(* Record: {inp:[Item..], out:[Item..], parsed:b, edition}                 *)
(*   Item = {use:b, vis, attrs:[str..], tree}                              *)
(*   tree = {k:"simple"|"glob"|"nested"|"other", path:[seg..], rename,     *)
(*           items:[tree..]}                                               *)
(***************************************************************************)
EXTENDS Naturals, Sequences, FiniteSets, TLC, Json, IOUtils
Rec == ndJsonDeserialize(IOEnv.TRACE)
VARIABLE l
Init == l = 1
Next == l < Len(Rec) /\ l' = l + 1
Spec == Init /\ [][Next]_l
R == Rec[l]

(* a::{self} and a::self denote a;  a::{self as x} denotes a as x;             *)
(* a leading `::` is significant from edition 2018 on (in 2015 every `use` path *)
(* is absolute already)                                                         *)
Root == "{{root}}"
DropRoot(p) == IF R.edition = "2015" /\ Len(p) > 0 /\ p[1] = Root THEN SubSeq(p, 2, Len(p)) ELSE p
Norm(p) == LET q == DropRoot(p) IN
           IF Len(q) > 1 /\ q[Len(q)] = "self" THEN SubSeq(q, 1, Len(q) - 1) ELSE q

RECURSIVE LeavesOf(_, _)
LeavesOf(t, prefix) ==
  LET p == prefix \o t.path IN
  CASE t.k = "simple" -> {<<Norm(p), IF t.rename = "" THEN "plain" ELSE t.rename>>}
    [] t.k = "glob" -> {<<DropRoot(p), "*">>}
    [] t.k = "nested" -> UNION {LeavesOf(t.items[i], p) : i \in 1 .. Len(t.items)}
    [] OTHER -> {}

AttrSet(it) == {it.attrs[i] : i \in 1 .. Len(it.attrs)}
ItemLeaves(it) == {<<it.vis, AttrSet(it), lf[1], lf[2]>> : lf \in LeavesOf(it.tree, <<>>)}

(* runs: maximal sequences of consecutive `use` items; run index of item i *)
RunIdx(items, i) == Cardinality({j \in 1 .. i : ~items[j].use})
NRuns(items) == Cardinality({j \in 1 .. Len(items) : ~items[j].use}) + 1
RunLeaves(items, r) ==
  UNION {ItemLeaves(items[i]) : i \in {j \in 1 .. Len(items) : items[j].use /\ RunIdx(items, j) = r}}

Parsed == R.parsed
(* no import moves across a non-import item: the non-import items stay where they are *)
SameRuns == R.parsed => NRuns(R.inp) = NRuns(R.out)
(* the set of imported paths with aliases, visibility and attributes of each run is unchanged *)
LeavesPreserved ==
  (R.parsed /\ NRuns(R.inp) = NRuns(R.out)) =>
     \A r \in 0 .. NRuns(R.inp) - 1 : RunLeaves(R.inp, r) = RunLeaves(R.out, r)

ReportInv ==
  LET F == {n \in {"Parsed", "SameRuns", "LeavesPreserved"} :
              ~(CASE n = "Parsed" -> Parsed [] n = "SameRuns" -> SameRuns
                  [] n = "LeavesPreserved" -> LeavesPreserved)}
  IN F = {} \/ PrintT(ToJson([tag |-> "FAIL", l |-> l, fails |-> F]))
=============================================================================
