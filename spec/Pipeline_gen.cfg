SPECIFICATION Spec
CONSTANTS
  MaxRoots = 3
  MaxFiles = 3
  FileFaults = {"E", "P", "N", "M", "A", "S", "W", "C", "R", "Z", "T", "G"}
  RootFaults = {"badtoml", "vermismatch", "missing", "dir"}
  Combos <- MCCombos
  GenMode = "companion"
  LocalCfgAborts = FALSE
INVARIANTS TypeOK FailedRootIntact OtherRootsFormatted ExitOne Diagnosed NoWriteBeforeResolved ReadOnlyModes ExitRelation WriteOnlyIfDiffers BackupIffChanged ExitIs01 EmitScenario
PROPERTY Terminates
