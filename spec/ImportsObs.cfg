SPECIFICATION Spec
INVARIANTS ReportInv
