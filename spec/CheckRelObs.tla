---------------------------- MODULE CheckRelObs ----------------------------
(* C06, the relation between `--check` and plain `rustfmt` on ONE command line,  *)
(* evaluated by TLC on pairs of runs of the real binary over the same tree       *)
(* (two copies): roots that SHARE an out-of-line module and disagree about its    *)
(* formatting (the configuration is the one of the root's directory).            *)
(* Record: {order:[root ids], flags:[..], check_exit, check_modified:b,           *)
(*          rewritten:b, errors:b}                                                *)
(*   check_modified  a file changed (bytes or modification time) or appeared       *)
(*                   during the --check run                                       *)
(*   rewritten       the plain run touched at least one file                       *)
(*   errors          the plain run reported an error (then nothing is claimed)     *)
EXTENDS Naturals, Sequences, FiniteSets, TLC, Json, IOUtils
Rec == ndJsonDeserialize(IOEnv.TRACE)
VARIABLE l
Init == l = 1
Next == l < Len(Rec) /\ l' = l + 1
Spec == Init /\ [][Next]_l
R == Rec[l]

(* --check never modifies a file *)
CheckReadOnly == ~R.check_modified
(* --check exits 1 exactly when plain rustfmt would rewrite at least one file *)
CheckExact == R.errors \/ (R.check_exit \in {0, 1} /\ ((R.check_exit = 1) <=> R.rewritten))

Names == {"CheckReadOnly", "CheckExact"}
Holds(n) == CASE n = "CheckReadOnly" -> CheckReadOnly [] n = "CheckExact" -> CheckExact
ReportInv ==
  LET F == {n \in Names : ~Holds(n)}
  IN F = {} \/ PrintT(ToJson([tag |-> "FAIL", l |-> l, fails |-> F]))
=============================================================================
