----------------------------- MODULE MC_Service -----------------------------
EXTENDS Service
(* the universe used by tools/rfv/c15.py:                                   *)
(*  f: formatted   u: unformatted   e: parse error   o: file under ws/       *)
(*  (tab_spaces=2)   i: file under ws/member/ (tab_spaces=8, nested)         *)
(*  m: root with an out-of-line module   x: un-fixable long line, reported   *)
MCFiles == {"f", "u", "e", "o", "i", "m", "x"}
MCDir == [f \in MCFiles |-> CASE f = "o" -> "ws" [] f = "i" -> "member" [] f = "x" -> "xd"
                              [] OTHER -> "plain"]
MCParent == [d \in {"top", "plain", "ws", "member", "xd"} |->
               CASE d = "member" -> "ws" [] OTHER -> "top"]
MCCfgAt == [d \in {"top", "plain", "ws", "member", "xd"} |->
               CASE d = "ws" -> "two" [] d = "member" -> "eight" [] d = "xd" -> "strict"
                 [] OTHER -> "none"]
MCStatus == [f \in MCFiles |-> IF f \in {"e", "x"} THEN 1 ELSE 0]
=============================================================================
