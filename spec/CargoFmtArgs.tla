---------------------------- MODULE CargoFmtArgs ----------------------------
(***************************************************************************)
(* The option handling of `cargo fmt` (src/cargo-fmt/main.rs: execute,     *)
(* convert_message_format_to_rustfmt_args, get_rustfmt_info, run_rustfmt): *)
(* what reaches rustfmt's command line, which combinations are refused,    *)
(* and the exit status.  C18: `passing through the options given after --  *)
(* and --check / --message-format; its exit status is non-zero exactly     *)
(* when some rustfmt invocation failed'.                                   *)
(*                                                                         *)
(* Record                                                                  *)
(*  f : vq "none"|"verbose"|"quiet"|"both", version, check : BOOLEAN,      *)
(*      mf "none"|"short"|"json"|"human"|"bogus",                          *)
(*      extra : Seq(STRING)  (the words after `--`),                       *)
(*      st : 0 | 1 | 9  (what every rustfmt invocation does: succeed, fail, *)
(*                       die from SIGKILL)                                 *)
(*  o : exit : Int, calls : Seq([edition : STRING ("none" when absent),    *)
(*      nfiles : Nat, rest : Seq(STRING)])  -- rest = the words after      *)
(*      `--edition X` (all words when there is no edition)                 *)
(* The workspace is fixed: two members, editions 2015 and 2021, `--all`.   *)
(***************************************************************************)
EXTENDS Naturals, Integers, Sequences, FiniteSets, TLC, Json, IOUtils
Rec == ndJsonDeserialize(IOEnv.TRACE)
VARIABLE l
Init == l = 1
Next == l < Len(Rec) /\ l' = l + 1
Spec == Init /\ [][Next]_l
S == Rec[l]
F == S.f
O == S.o

Has(s, x) == \E i \in 1 .. Len(s) : s[i] = x
Count(s, x) == Cardinality({i \in 1 .. Len(s) : s[i] = x})
StartsWith(w, p) == \E i \in 1 .. Len(F.pre) : F.pre[i].w = w /\ F.pre[i].p = p
(* `F.pre` lists, for every word of `extra`, the prefixes it starts with among --emit, --help=,
   --print-config= (a lexical fact about the words, given with the record) *)
InfoWord(w) == w \in {"--print-config", "-h", "--help", "-V", "--version"}
               \/ StartsWith(w, "--help=") \/ StartsWith(w, "--print-config=")
HasInfo == \E i \in 1 .. Len(F.extra) : InfoWord(F.extra[i])
HasEmit(s) == \E i \in 1 .. Len(s) : StartsWith(s[i], "--emit")
HasList(s) == Has(s, "-l") \/ Has(s, "--files-with-diff")

(* ---- the transcription ------------------------------------------------------*)
StatusOf == IF F.st = 0 THEN 0 ELSE 1            \* a signal counts as a failure
WithCheck == IF F.check /\ ~Has(F.extra, "--check") THEN Append(F.extra, "--check") ELSE F.extra
MfRefused == \/ F.mf = "bogus"
             \/ (F.mf = "json" /\ (HasEmit(WithCheck) \/ Has(WithCheck, "--check")))
Args == CASE F.mf = "short" -> (IF HasList(WithCheck) THEN WithCheck ELSE Append(WithCheck, "-l"))
          [] F.mf = "json" -> WithCheck \o <<"--emit", "json">>
          [] OTHER -> WithCheck
Call(ed, n, rest) == [edition |-> ed, nfiles |-> n, rest |-> rest]
Oper ==
  IF F.vq = "both" THEN [calls |-> <<>>, fail |-> TRUE]
  ELSE IF F.version THEN [calls |-> <<Call("none", 0, <<"--version">>)>>, fail |-> StatusOf # 0]
  ELSE IF HasInfo THEN [calls |-> <<Call("none", 0, F.extra)>>, fail |-> StatusOf # 0]
  ELSE IF F.mf # "none" /\ MfRefused THEN [calls |-> <<>>, fail |-> TRUE]
  ELSE [calls |-> <<Call("2015", 1, Args), Call("2021", 1, Args)>>, fail |-> StatusOf # 0]

(* ---- what a user relies on ---------------------------------------------------*)
Formatting(c) == c.edition # "none"
FmtCalls(calls) == {i \in 1 .. Len(calls) : Formatting(calls[i])}
RECURSIVE IsSubseq(_, _)
IsSubseq(a, b) == IF a = <<>> THEN TRUE ELSE IF b = <<>> THEN FALSE
                  ELSE IF Head(a) = Head(b) THEN IsSubseq(Tail(a), Tail(b)) ELSE IsSubseq(a, Tail(b))
(* the exit status is non-zero exactly when some rustfmt invocation failed, or the command    *)
(* line was refused                                                                            *)
Refused == F.vq = "both" \/ (~F.version /\ ~HasInfo /\ F.mf # "none" /\ MfRefused)
ExitIffFailed(calls, ex) ==
  /\ (calls # <<>> /\ F.st # 0) => ex # 0
  /\ (~Refused /\ F.st = 0) => ex = 0
RefusedNoCalls(calls, ex) == Refused => (calls = <<>> /\ ex # 0)
(* the words after `--` reach every formatting invocation, in their order *)
PassThrough(calls) == \A i \in FmtCalls(calls) : IsSubseq(F.extra, calls[i].rest)
(* --check (given to cargo fmt or after `--`) is there, once unless the user wrote it twice *)
CheckOnce(calls) ==
  \A i \in FmtCalls(calls) :
     LET n == Count(calls[i].rest, "--check") IN
     IF Has(F.extra, "--check") THEN n = Count(F.extra, "--check")
     ELSE n = (IF F.check THEN 1 ELSE 0)
(* --message-format: short lists the files, json selects the json emitter, human adds nothing *)
MessageFormat(calls) ==
  \A i \in FmtCalls(calls) :
     LET r == calls[i].rest IN
     /\ (F.mf = "short") => HasList(r)
     /\ (F.mf = "json") => (\E k \in 1 .. Len(r) - 1 : r[k] = "--emit" /\ r[k + 1] = "json")
                           /\ ~Has(r, "--check")
     /\ (F.mf \in {"none", "human"}) => Len(r) = Len(F.extra) + (IF F.check /\ ~Has(F.extra, "--check")
                                                                   THEN 1 ELSE 0)
(* a formatting invocation names files and an edition; an informational one names neither *)
Shapes(calls) == \A i \in 1 .. Len(calls) : (Formatting(calls[i]) <=> calls[i].nfiles > 0)
Clauses == {"ExitIffFailed", "RefusedNoCalls", "PassThrough", "CheckOnce", "MessageFormat", "Shapes"}
Holds(n, calls, ex) ==
  CASE n = "ExitIffFailed" -> ExitIffFailed(calls, ex) [] n = "RefusedNoCalls" -> RefusedNoCalls(calls, ex)
    [] n = "PassThrough" -> PassThrough(calls) [] n = "CheckOnce" -> CheckOnce(calls)
    [] n = "MessageFormat" -> MessageFormat(calls) [] n = "Shapes" -> Shapes(calls)
ModelFails == {n \in Clauses : ~Holds(n, Oper.calls, IF Oper.fail THEN 1 ELSE 0)}
ObsFails == {n \in Clauses : ~Holds(n, O.calls, O.exit)}
AsModel == O.calls = Oper.calls /\ ((O.exit # 0) <=> Oper.fail)
ReportInv ==
  (ModelFails = {} /\ ObsFails = {} /\ AsModel)
  \/ PrintT(ToJson([tag |-> "FAIL", l |-> l, fails |-> ObsFails, model |-> ModelFails,
                    asmodel |-> AsModel, oper |-> Oper]))
=============================================================================
