----------------------------- MODULE CommentsObs ----------------------------
(***************************************************************************)
(* C03: comments are never silently dropped -- evaluated by TLC on runs of *)
(* the real formatter.                                                     *)
(*                                                                         *)
(* The formatter is uninterpreted; what is observed per run is the         *)
(* projection of Appendix F.4: the non-doc comment tokens of input and     *)
(* output as rustc_lexer sees them, each reduced to its PAYLOAD (opener /   *)
(* closer dropped, every line trimmed, a leading run of `*` dropped, empty  *)
(* lines dropped).  A comment is IN SCOPE when rustc's own AST places it   *)
(* at one of the positions the property names (between two consecutive     *)
(* items / statements / fields / variants / arms / parameters / arguments, *)
(* at the end of the line of such an element, or strictly inside a         *)
(* statement of a function body).                                          *)
(*                                                                         *)
(* Record:                                                                 *)
(*   rw   : a comment-rewriting option (wrap_comments, normalize_comments) *)
(*          is on                                                          *)
(*   pl   : <<a, b, c>> per distinct payload with a > 0 --                 *)
(*          a = in-scope occurrences in the input, b = all occurrences in  *)
(*          the input, c = occurrences in the output         (rw = FALSE)  *)
(*   mk   : per comment planted by the driver (its text holds a marker     *)
(*          word that occurs nowhere else): p = its payload, hits = the    *)
(*          payloads of the output comments that mention the marker, one   *)
(*          entry per mention                                 (rw = FALSE) *)
(*   mkw  : per planted comment: w = its words, wins = for every mention   *)
(*          of the marker word among the words of the output's comments,   *)
(*          the window of Len(w) words that starts there      (rw = TRUE)  *)
(***************************************************************************)
EXTENDS Naturals, Sequences, FiniteSets, TLC, Json, IOUtils
Rec == ndJsonDeserialize(IOEnv.TRACE)
VARIABLE l
Init == l = 1
Next == l < Len(Rec) /\ l' = l + 1
Spec == Init /\ [][Next]_l
R == Rec[l]

(* every in-scope comment reappears ... *)
Reappears == \A i \in DOMAIN R.pl : R.pl[i][3] >= R.pl[i][1]
(* ... and no comment is multiplied: `exactly once' *)
NotMultiplied == \A i \in DOMAIN R.pl : R.pl[i][3] <= R.pl[i][2]
(* a planted comment is mentioned by exactly one comment of the output ... *)
PlantedOnce == \A i \in DOMAIN R.mk : Len(R.mk[i].hits) = 1
(* ... whose text is the planted text, up to re-indentation and trailing blanks *)
PlantedSameText ==
  \A i \in DOMAIN R.mk : \A j \in DOMAIN R.mk[i].hits : R.mk[i].hits[j] = R.mk[i].p
(* under the comment-rewriting options: the words, in order, exactly once *)
WordsKept ==
  \A i \in DOMAIN R.mkw : Len(R.mkw[i].wins) = 1 /\ R.mkw[i].wins[1] = R.mkw[i].w

Names == {"Reappears", "NotMultiplied", "PlantedOnce", "PlantedSameText", "WordsKept"}
Holds(n) == CASE n = "Reappears" -> Reappears [] n = "NotMultiplied" -> NotMultiplied
              [] n = "PlantedOnce" -> PlantedOnce [] n = "PlantedSameText" -> PlantedSameText
              [] n = "WordsKept" -> WordsKept
ReportInv ==
  LET F == {n \in Names : ~Holds(n)}
  IN F = {} \/ PrintT(ToJson([tag |-> "FAIL", l |-> l, fails |-> F]))
=============================================================================
