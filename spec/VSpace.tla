------------------------------- MODULE VSpace -------------------------------
(* `push_vertical_spaces` (src/missed_spans.rs): how many line feeds are     *)
(* appended when the buffer already ends in `offset` of them and the source  *)
(* had `n`, under blank_lines_lower/upper_bound.  Property C08: the run of   *)
(* line feeds ends up within [lower+1, upper+1] whenever that is reachable   *)
(* by appending alone.                                                       *)
EXTENDS Naturals, TLC

CONSTANTS MaxN, MaxBound
VARIABLES offset, n, lower, upper
vars == <<offset, n, lower, upper>>

Init == /\ offset \in 0 .. MaxN /\ n \in 0 .. MaxN
        /\ lower \in 0 .. MaxBound /\ upper \in 0 .. MaxBound
Next == UNCHANGED vars
Spec == Init /\ [][Next]_vars

Push(o, c, lo, up) ==
  LET ub == up + 1  lb == lo + 1 IN
  IF c + o > ub THEN (IF o >= ub THEN 0 ELSE ub - o)
  ELSE IF c + o < lb THEN (IF o >= lb THEN 0 ELSE lb - o)
  ELSE c

Total == offset + Push(offset, n, lower, upper)
(* (a lower bound above the upper bound is a contradictory configuration: the code lets  *)
(* the lower bound win when text is added and the upper one when it is removed)         *)
(* never more than upper+1 unless the buffer already had more *)
UpperRespected == (lower <= upper) => Total <= (IF offset > upper + 1 THEN offset ELSE upper + 1)
(* at least lower+1, unless that contradicts the upper bound (upper wins) *)
LowerRespected == (lower <= upper) => Total >= lower + 1
(* within the bounds nothing is added or removed *)
Identity == (offset + n <= upper + 1 /\ offset + n >= lower + 1) => Total = offset + n
=============================================================================
