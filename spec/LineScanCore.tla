---------------------------- MODULE LineScanCore ----------------------------
(***************************************************************************)
(* The line scanner of src/formatting.rs (`FormatLines`: char / new_line / *)
(* should_report_error / is_skipped_line) and the declarative definition   *)
(* of the expected diagnostics (DESIGN.md appendix F.3).  Property C07.    *)
(*                                                                         *)
(* Input symbols (the class CharClasses assigns is part of the symbol):    *)
(*   "x" code   "sp" blank   "tab" tab   "q" string char   "qsp" blank in  *)
(*   a string   "k" comment char   "ksp" blank in a comment   "cr"         *)
(*   "qtab" / "ktab" tab inside a string / comment                          *)
(*   "lf" line feed classified Normal/string   "lfk" line feed classified  *)
(*   as comment (end of a line comment, or inside a block comment)         *)
(* cfg = [mw, ts, eoo, eou]   (max_width, tab_spaces, error_on_line_overflow, *)
(*                             error_on_unformatted)                       *)
(***************************************************************************)
EXTENDS Naturals, Sequences, FiniteSets

Blanks == {"sp", "tab", "qsp", "ksp", "qtab", "ktab"}
StrSyms == {"q", "qsp", "qtab"}
LFs == {"lf", "lfk"}
W(s, cfg) == IF s \in {"tab", "qtab", "ktab"} THEN cfg.ts ELSE 1

InRanges(n, rs) == \E r \in rs : r[1] <= n /\ n <= r[2]

(* ---- operational ---- *)
St0(sel) == [line_len |-> 0, last_sp |-> FALSE, has_str |-> FALSE, cur_line |-> 1,
             nl_count |-> 0, fmt_line |-> 1 \in sel]

Char(st, s, cfg) ==
  IF s = "cr" THEN st
  ELSE [st EXCEPT !.nl_count = 0, !.line_len = @ + W(s, cfg), !.last_sp = s \in Blanks,
                  !.has_str = @ \/ s \in StrSyms]

Allow(isCom, hasStr, cfg) == IF isCom \/ hasStr THEN cfg.eou ELSE TRUE

(* returns [st, reps] : reps is a set of <<line, kind>> *)
NewLine(st, lf, cfg, skipped, sel) ==
  LET isCom == lf = "lfk"
      skip == InRanges(st.cur_line, skipped)
      tw == st.fmt_line /\ st.last_sp /\ Allow(isCom, st.has_str, cfg) /\ ~skip
      len1 == IF st.fmt_line /\ st.last_sp THEN st.line_len - 1 ELSE st.line_len
      lo == st.fmt_line /\ len1 > cfg.mw /\ ~skip /\ cfg.eoo /\ Allow(isCom, st.has_str, cfg)
  IN [st |-> [line_len |-> 0, last_sp |-> FALSE, has_str |-> FALSE,
              cur_line |-> st.cur_line + 1, nl_count |-> st.nl_count + 1,
              fmt_line |-> (st.cur_line + 1) \in sel],
      reps |-> (IF tw THEN {<<st.cur_line, "TrailingWhitespace">>} ELSE {})
               \cup (IF lo THEN {<<st.cur_line, "LineOverflow">>} ELSE {})]

(* ---- declarative: facts of one line, and what must / may be reported ---- *)
G0 == [raw |-> 0, trail |-> 0, blank |-> FALSE, str |-> FALSE]
GChar(g, s, cfg) ==
  IF s = "cr" THEN g
  ELSE [raw |-> g.raw + W(s, cfg),
        trail |-> IF s \in Blanks THEN g.trail + W(s, cfg) ELSE 0,
        blank |-> s \in Blanks,
        str |-> g.str \/ s \in StrSyms]

(* n: 1-based line number; returns [must, may] sets of kinds *)
Expected(g, lf, n, cfg, skipped, sel) ==
  LET com == lf = "lfk"
      allowed == (com \/ g.str) => cfg.eou
      base == n \in sel /\ ~InRanges(n, skipped) /\ allowed
      twx == base /\ g.blank
      lomust == base /\ cfg.eoo /\ (g.raw - g.trail) > cfg.mw
      lomay == base /\ cfg.eoo /\ g.raw > cfg.mw
  IN [must |-> (IF twx THEN {"TrailingWhitespace"} ELSE {}) \cup
               (IF lomust THEN {"LineOverflow"} ELSE {}),
      may |-> (IF twx THEN {"TrailingWhitespace"} ELSE {}) \cup
              (IF lomay THEN {"LineOverflow"} ELSE {})]
=============================================================================
