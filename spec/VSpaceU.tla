------------------------------- MODULE VSpaceU -------------------------------
(* push_vertical_spaces for UNBOUNDED naturals (Apalache, SMT): the bounded    *)
(* TLC run of VSpace.tla covers 0..MaxN; here offset, n, lower, upper range     *)
(* over all naturals.                                                           *)
EXTENDS Integers

VARIABLES
  \* @type: Int;
  offset,
  \* @type: Int;
  n,
  \* @type: Int;
  lower,
  \* @type: Int;
  upper

Init == /\ offset \in Nat /\ n \in Nat /\ lower \in Nat /\ upper \in Nat
Next == UNCHANGED <<offset, n, lower, upper>>

\* @type: (Int, Int, Int, Int) => Int;
Push(o, c, lo, up) ==
  LET ub == up + 1  lb == lo + 1 IN
  IF c + o > ub THEN (IF o >= ub THEN 0 ELSE ub - o)
  ELSE IF c + o < lb THEN (IF o >= lb THEN 0 ELSE lb - o)
  ELSE c

Total == offset + Push(offset, n, lower, upper)
UpperRespected == (lower <= upper) => Total <= (IF offset > upper + 1 THEN offset ELSE upper + 1)
LowerRespected == (lower <= upper) => Total >= lower + 1
Identity == (offset + n <= upper + 1 /\ offset + n >= lower + 1) => Total = offset + n
NonNegative == Push(offset, n, lower, upper) >= 0
Inv == UpperRespected /\ LowerRespected /\ Identity /\ NonNegative
=============================================================================
