------------------------------ MODULE Service -------------------------------
(***************************************************************************)
(* One rustfmt session (src/bin/main.rs `format`, src/lib.rs `Session`)    *)
(* over an ORDERED list of inputs taken from a universe of files that live *)
(* in directories with their own configuration files.  Property C15: the   *)
(* bytes produced for a file are a function of the file and of ITS         *)
(* effective configuration only, whatever was formatted before it; the     *)
(* exit status is the maximum of the single-file statuses.                 *)
(*                                                                         *)
(* Outputs are symbolic: Out(f, c) stands for "the text the formatter       *)
(* produces for file f under configuration c".                              *)
(***************************************************************************)
EXTENDS Naturals, Sequences, FiniteSets, TLC, Json

CONSTANTS Files,        \* file ids
          Dir,          \* [Files -> directory id]
          Parent,       \* [directory id -> directory id] (root is its own parent)
          CfgAt,        \* [directory id -> config id or "none"]
          Status,       \* [Files -> 0 | 1]   exit status of the single-file run
          MaxLen        \* longest order explored

RECURSIVE Nearest(_)
Nearest(d) == IF CfgAt[d] # "none" THEN CfgAt[d]
              ELSE IF Parent[d] = d THEN "default" ELSE Nearest(Parent[d])
EffCfg(f) == Nearest(Dir[f])

RECURSIVE Orders(_)
Orders(n) == IF n = 0 THEN {<<>>} ELSE
              LET P == Orders(n - 1) IN
              P \cup {Append(s, f) : s \in {q \in P : Len(q) = n - 1},
                                     f \in Files}
NoRepeat(s) == \A i, j \in 1 .. Len(s) : i # j => s[i] # s[j]

VARIABLES order, i, sessionCfg, out, flags, exit, pc
vars == <<order, i, sessionCfg, out, flags, exit, pc>>

Init ==
  /\ order \in {s \in Orders(MaxLen) : s # <<>> /\ NoRepeat(s)}
  /\ i = 1 /\ sessionCfg = "cli" /\ out = [f \in {} |-> 0] /\ flags = 0 /\ exit = 99
  /\ pc = "load"

(* load_config(file.parent()) ; session.override_config(local, |s| format(file)) *)
Load ==
  /\ pc = "load" /\ i <= Len(order)
  /\ sessionCfg' = EffCfg(order[i]) /\ pc' = "format"
  /\ UNCHANGED <<order, i, out, flags, exit>>

Format ==
  /\ pc = "format"
  /\ out' = [f \in DOMAIN out \cup {order[i]} |->
               IF f = order[i] THEN <<order[i], sessionCfg>> ELSE out[f]]
  /\ flags' = IF Status[order[i]] > flags THEN Status[order[i]] ELSE flags   \* sticky OR
  /\ pc' = "restore"
  /\ UNCHANGED <<order, i, sessionCfg, exit>>

(* mem::swap back: the session configuration is the CLI one again *)
Restore ==
  /\ pc = "restore"
  /\ sessionCfg' = "cli" /\ i' = i + 1
  /\ pc' = IF i = Len(order) THEN "exit" ELSE "load"
  /\ UNCHANGED <<order, out, flags, exit>>

Exit ==
  /\ pc = "exit" /\ exit' = flags /\ pc' = "done"
  /\ UNCHANGED <<order, i, sessionCfg, out, flags>>

Next == Load \/ Format \/ Restore \/ Exit
Spec == Init /\ [][Next]_vars /\ WF_vars(Next)

Done == pc = "done"
Max(S) == CHOOSE m \in S : \A x \in S : x <= m

Functional == \A f \in DOMAIN out : out[f] = <<f, EffCfg(f)>>
ExitIsMax == Done => exit = Max({Status[order[j]] : j \in 1 .. Len(order)})
ConfigRestored == pc \in {"load", "exit", "done"} => sessionCfg = "cli"
Terminates == <>Done

Emit == Done => PrintT(ToJson([tag |-> "REPLAY", order |-> order, exit |-> exit]))
=============================================================================
