SPECIFICATION Spec
INVARIANTS ReportInv
