SPECIFICATION Spec
CONSTANTS
  Paths <- MCPaths
  RsPaths <- MCRsPaths
  Starts = {1, 10}
  Counts = {1, 3}
  OCounts = {1}
  Headings = {"none", "plusnum"}
  Bodies = {"plain"}
  MaxSections = 1
  MaxHunks = 1
  Ps = {0, 1, 2, 3}
  Filters = {"rs", "src", "none"}
  LazyHeader = TRUE
INVARIANTS Emit
