SPECIFICATION Spec
CONSTANTS
  MaxLen = 8
  Contexts = {0, 1, 2, 3}
INVARIANTS TypeOK Correct Emit
