SPECIFICATION Spec
INVARIANTS ReportInv
