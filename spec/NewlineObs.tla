----------------------------- MODULE NewlineObs -----------------------------
(* C08's newline clauses evaluated by TLC on outputs of the REAL               *)
(* apply_newline_style (export hook).  Record: {text, win, unix, auto_out, native,*)
(* raw} -- sequences over {"c","cr","lf"}; auto_out = Auto applied with `raw`  *)
EXTENDS NewlineCore, IOUtils
Rec == ndJsonDeserialize(IOEnv.TRACE)
VARIABLE l
Init == l = 1
Next == l < Len(Rec) /\ l' = l + 1
Spec == Init /\ [][Next]_l
R == Rec[l]

WindowsOK == AllCRLF(R.win) /\ Content(R.win, 1) = Content(R.text, 1)
UnixOK == Producible(R.text) => (NoCRLF(R.unix) /\ Content(R.unix, 1) = Content(R.text, 1))
AutoOK == LET want == IF Auto(R.raw) = "windows" THEN "windows" ELSE "unix" IN
          Producible(R.text) =>
             IF want = "windows" THEN AllCRLF(R.auto_out) ELSE NoCRLF(R.auto_out)
(* Native is the style of the platform the formatter runs on, whatever the input looks like *)
NativeOK == ("native" \in DOMAIN R) => (R.native = IF R.windows_host THEN R.win ELSE R.unix)
AsModel == R.win = ToWin(R.text, 1) /\ R.unix = ToUnix(R.text, 1) /\ R.auto_out = Apply("auto", R.text, R.raw)
ReportInv ==
  LET F == {n \in {"WindowsOK", "UnixOK", "AutoOK", "NativeOK", "AsModel"} :
              ~(CASE n = "WindowsOK" -> WindowsOK [] n = "NativeOK" -> NativeOK [] n = "UnixOK" -> UnixOK [] n = "AutoOK" -> AutoOK
                  [] n = "AsModel" -> AsModel)}
  IN F = {} \/ PrintT(ToJson([tag |-> "FAIL", l |-> l, fails |-> F]))
=============================================================================
