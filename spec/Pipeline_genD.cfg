SPECIFICATION Spec
CONSTANTS
  MaxRoots = 3
  MaxFiles = 3
  FileFaults = {"D", "H", "K"}
  RootFaults = {}
  Combos <- MCCombos
  GenMode = "companion"
  LocalCfgAborts = FALSE
INVARIANTS TypeOK EmitScenario
PROPERTY Terminates
