SPECIFICATION Spec
CONSTANTS
  MaxRanges = 3
  MaxLine = 4
INVARIANTS DenotesUnion LineQuery RangeQuery IntersectQuery NoEmptySel
