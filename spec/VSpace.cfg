SPECIFICATION Spec
CONSTANTS
  MaxN = 6
  MaxBound = 3
INVARIANTS UpperRespected LowerRespected Identity
