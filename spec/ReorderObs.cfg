SPECIFICATION Spec
INVARIANTS ReportInv
