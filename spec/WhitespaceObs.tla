--------------------------- MODULE WhitespaceObs ----------------------------
(***************************************************************************)
(* C08's whitespace discipline evaluated by TLC on the text rustfmt emits. *)
(* One record per formatted file:                                          *)
(*  {style:"unix"|"windows", hard_tabs:b, upper:n, nonempty:b,             *)
(*   lead_blank:b, final_nl:n, crlf:n, lf:n,                               *)
(*   lines:[{lead:[..], cls, depth, exempt:b}]}                            *)
(*  lead  : the leading code-class blanks of the line ("t" / "s")          *)
(*  cls   : "blank" (only blanks) | "code" | "other" (line starts inside a *)
(*          string or comment)                                             *)
(*  depth : brace/paren/bracket depth at the start of the line             *)
(*  exempt: the line lies in skipped code or inside a macro call/def       *)
(***************************************************************************)
EXTENDS Naturals, Sequences, FiniteSets, TLC, Json, IOUtils
Rec == ndJsonDeserialize(IOEnv.TRACE)
VARIABLE l
Init == l = 1
Next == l < Len(Rec) /\ l' = l + 1
Spec == Init /\ [][Next]_l
R == Rec[l]
L == R.lines

OneFinalNewline == R.nonempty => R.final_nl = 1
NoLeadingBlank == R.nonempty => ~R.lead_blank
TerminatorsFollowStyle == IF R.style = "windows" THEN R.crlf = R.lf ELSE R.crlf = 0

TabsThenSpaces(s) == \A i, j \in 1 .. Len(s) : (i < j /\ s[i] = "s") => s[j] = "s"
IndentDiscipline ==
  \A i \in 1 .. Len(L) :
    (L[i].cls = "code" /\ ~L[i].exempt) =>
       IF R.hard_tabs THEN TabsThenSpaces(L[i].lead)
       ELSE \A j \in 1 .. Len(L[i].lead) : L[i].lead[j] = "s"

(* a run of blank lines ending just before line i *)
RECURSIVE RunBefore(_)
RunBefore(i) == IF i < 1 \/ L[i].cls # "blank" \/ L[i].exempt THEN 0 ELSE 1 + RunBefore(i - 1)
Flank == IF "strict" \in DOMAIN R /\ R.strict THEN {"code", "other"} ELSE {"code"}
BlankBound ==
  \A i \in 2 .. Len(L) :
    (* the property bounds the blank lines between ITEMS and between STATEMENTS: both  *)
    (* neighbours of the run must be lines that start with code (not comment lines)    *)
    (* (in the generated sources -- R.strict -- every line is an item, a statement or a   *)
    (* line comment between two of them, so a comment line may flank the run as well)  *)
    (L[i].cls \in Flank /\ ~L[i].exempt /\ L[i - 1].cls = "blank"
       /\ i - 1 - RunBefore(i - 1) >= 1 /\ L[i - 1 - RunBefore(i - 1)].cls \in Flank) =>
       LET run == RunBefore(i - 1) IN
       /\ (L[i].depth = 0 => run <= R.upper)          \* between items
       /\ run <= (IF R.upper > 1 THEN R.upper ELSE 1)  \* statements / list elements
       (* `never more than one inside a field, variant, arm or argument list', whatever the    *)
       (* bound (R.listdepth: the depth at which the lines of a generated list source are its   *)
       (* elements and the comments between them)                                              *)
       /\ (("listdepth" \in DOMAIN R /\ L[i].depth = R.listdepth) => run <= 1)

ReportInv ==
  LET F == {n \in {"OneFinalNewline", "NoLeadingBlank", "TerminatorsFollowStyle",
                   "IndentDiscipline", "BlankBound"} :
              ~(CASE n = "OneFinalNewline" -> OneFinalNewline [] n = "NoLeadingBlank" -> NoLeadingBlank
                  [] n = "TerminatorsFollowStyle" -> TerminatorsFollowStyle
                  [] n = "IndentDiscipline" -> IndentDiscipline [] n = "BlankBound" -> BlankBound)}
  IN F = {} \/ PrintT(ToJson([tag |-> "FAIL", l |-> l, fails |-> F]))
=============================================================================
