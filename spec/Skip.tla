-------------------------------- MODULE Skip --------------------------------
(***************************************************************************)
(* C04: skip-marked code is emitted verbatim.                              *)
(*                                                                         *)
(* Three things are modelled the way the code does them and compared with  *)
(* what the property promises:                                             *)
(*                                                                         *)
(* (a) RECOGNITION (src/utils.rs contains_skip / is_skip): which attribute *)
(*     spellings mark a node as skipped.                                   *)
(* (b) SCOPING of rustfmt::skip::macros(..) / rustfmt::skip::attributes(..)*)
(*     and of the option skip_macro_invocations (src/skip.rs SkipContext,  *)
(*     src/visitor.rs visit_item / from_context / from_psess): the set of  *)
(*     names a visitor carries while it walks down the syntax tree.  One   *)
(*     action per place where the code touches the context:                *)
(*       "crate"  format_file: update_with_attrs(krate.attrs)              *)
(*       "item"   visit_item : save; update_with_attrs(item.attrs); ..;    *)
(*                             restore                                     *)
(*       "assoc"  visit_assoc_item: like "item" (since fix c462544; it was   *)
(*                not updated before)                                      *)
(*       "stmt"   visit_stmt (let / expression statements): NOT updated    *)
(*       "child"  FmtVisitor::from_context: a fresh visitor (from_psess:   *)
(*                names of skip_macro_invocations) updated with the        *)
(*                parent's context -- blocks inside expressions, closures, *)
(*                impl and trait bodies, ...                               *)
(* (c) the product node kind x spelling x context for #[rustfmt::skip]     *)
(*     itself; every node kind has its own early return in the code.       *)
(*                                                                         *)
(* TLC walks every syntactic path up to MaxDepth constructs (with at most  *)
(* MaxDecl declaring constructs) and prints, per path, one scenario for    *)
(* every target that can stand there: `oper' is what the transcription     *)
(* answers, `decl' what the property promises.  tools/rfv/c04.py renders   *)
(* every scenario as Rust source with a deliberately mis-laid-out target   *)
(* inside mis-laid-out surroundings, formats it with the real code and     *)
(* compares: real # decl is a violation, real # oper is model drift.       *)
(***************************************************************************)
EXTENDS Naturals, Sequences, FiniteSets, TLC, Json
CONSTANTS MaxDepth, MaxDecl

(* ---- syntax -------------------------------------------------------------*)
ItemCtx == {"mod", "modI", "fn", "fnI", "impl", "trait"}      \* I = the declaration is an inner attribute
(* an out-of-line module: `mod x;` whose body is a file of its own; the declaration of names is an
   inner attribute at the top of that file (modfileI) or an outer attribute on `mod x;` (modfileO) *)
FileCtx == {"modfileI", "modfileO"}
BodyBlocks == {"ifb", "closure", "loopb", "armb", "blockb", "unsafeb"}
Constructs == ItemCtx \cup FileCtx \cup BodyBlocks \cup {"method", "letd"}
Declaring == ItemCtx \cup FileCtx \cup {"method", "letd"}                   \* constructs that can carry skip::macros / skip::attributes
BodyCtx == {"fn", "fnI", "method"} \cup BodyBlocks
(* what may stand directly inside what ("top" = the file) *)
Children(c) ==
  CASE c \in {"top", "mod", "modI", "modfileI", "modfileO"} ->
         {"mod", "modI", "fn", "fnI", "impl", "trait", "modfileI", "modfileO"}
    [] c \in {"impl", "trait"} -> {"method"}
    [] c \in BodyCtx -> {"fn", "impl"} \cup BodyBlocks \cup {"letd"}
    [] OTHER -> {}
(* the steps the code performs when the visitor enters the construct *)
Steps(c) ==
  CASE c \in {"mod", "modI", "fn", "fnI"} -> <<"item">>
    [] c \in {"impl", "trait"} -> <<"item", "child">>
    [] c = "method" -> <<"assoc">>
    [] c = "letd" -> <<"stmt">>
    [] c = "modfileI" -> <<"fileI">>
    [] c = "modfileO" -> <<"fileO">>
    [] OTHER -> <<"child">>
(* targets that can stand directly inside a construct *)
NameTargets(c) ==
  CASE c \in {"top", "mod", "modI", "modfileI", "modfileO"} -> {"mac_item", "attr_item"}
    [] c \in {"impl", "trait"} -> {"mac_assoc", "attr_method"}
    [] c = "letd" -> {"mac_init"}
    [] OTHER -> {"mac_stmt", "mac_expr", "attr_let", "attr_item"}
IsMacroTarget(t) == t \in {"mac_item", "mac_assoc", "mac_init", "mac_stmt", "mac_expr"}
SkipNodes(c) ==
  CASE c \in {"top", "mod", "modI", "modfileI", "modfileO"} ->
         {"fn", "struct", "enum", "union", "impl", "trait", "mod", "const", "static", "type", "use",
          "externcrate", "macrodef", "foreign", "field", "variant", "fn_ml", "struct_ml", "impl_ml",
          \* positional fields of a tuple struct / a tuple variant
          "tuplefield", "tuplevariantfield",
          \* the attribute as an inner attribute of the node's own body
          "fn_inner", "impl_inner", "trait_inner", "mod_inner", "foreign_inner",
          \* a skipped declaration directly after an unskipped one of the same kind
          "use_after", "externcrate_after"}
    [] c \in {"impl", "trait"} -> {"afn", "aconst", "atype", "afn_ml", "afn_inner"}
    [] c = "letd" -> {}
    [] OTHER -> {"let", "exprstmt", "macstmt", "arm", "litfield", "expr", "fn", "struct", "let_ml", "arm_ml",
                 "closurestmt",
                 \* attributed expressions in argument / element position (paths that rewrite the
                 \* last argument of a call do not go through format_expr)
                 "closurearg_if", "closurearg_block", "closurearg_loop", "callarg", "lastarg",
                 "tupleelem", "arrayelem", "binop", "retval", "fn_inner", "block_inner",
                 \* a parenthesised expression inside parentheses (remove_nested_parens must not
                 \* drop it together with its attribute: fix 8246e5f)
                 "innerparen",
                 \* `mod x;` as a statement (visit_stmt moves past it: fix for the vanishing declaration)
                 "moddecl_stmt"}
Spellings == {"skip", "depr", "cfg_skip", "cfg_depr", "cfg_cfg_skip", "cfg_multi",
              \* the skip attribute next to other attributes of the same node: one whose arguments
              \* are not meta-item syntax (before / after it), a doc comment before it
              "nb_before", "nb_after", "doc_before"}
Cfgs == {"none", "m", "star"}

(* ---- (a) recognition ----------------------------------------------------*)
(* is_skip: a Word that is rustfmt::skip or rustfmt_skip; a List named cfg_attr one of whose
   entries after the predicate is_skip (since fix adda75d; exactly two entries before) *)
OperIsSkip(sp) ==
  CASE sp \in {"skip", "depr"} -> TRUE
    [] sp \in {"cfg_skip", "cfg_depr", "cfg_cfg_skip"} -> TRUE
    [] sp = "cfg_multi" -> TRUE           \* cfg_attr(p, rustfmt::skip, allow(x))
    [] sp \in {"nb_before", "nb_after", "doc_before"} -> TRUE   \* `any` attribute of the node
DeclIsSkip(sp) == TRUE                    \* `directly or via cfg_attr, or the deprecated rustfmt_skip'

(* ---- (b) scoping ---------------------------------------------------------*)
(* a name context: All, or Values(set of names) *)
AllCtx == [all |-> TRUE, names |-> {}]
Values(S) == [all |-> FALSE, names |-> S]
Extend(ctx, names) == IF ctx.all THEN ctx ELSE Values(ctx.names \cup names)
Update(this, other) == IF this.all THEN this ELSE IF other.all THEN AllCtx
                       ELSE Values(this.names \cup other.names)
FromPsess(cfg) == [m |-> CASE cfg = "star" -> AllCtx [] cfg = "m" -> Values({"m"}) [] OTHER -> Values({}),
                   a |-> Values({})]
DeclNames(d) == [m |-> IF d \in {"M", "MA"} THEN {"m"} ELSE {}, a |-> IF d \in {"A", "MA"} THEN {"a"} ELSE {}]
UpdateWithAttrs(ctx, d) == [m |-> Extend(ctx.m, DeclNames(d).m), a |-> Extend(ctx.a, DeclNames(d).a)]
(* format_file: every file gets a FRESH visitor (from_psess) that is given the attributes of  *)
(* the crate and (since fix 12a9f29) the inner attributes of the module file itself; what the *)
(* visitor of the parent file had collected -- names declared on enclosing items of the parent *)
(* file, or as outer attributes on the `mod x;` declaration -- does not reach it.               *)
FileStep(st, d, cfg, cr) ==
  LET fresh == UpdateWithAttrs(FromPsess(cfg), cr)
  IN IF st = "fileI" THEN UpdateWithAttrs(fresh, d) ELSE fresh
Step(ctx, st, d, cfg) ==
  CASE st \in {"crate", "item", "assoc"} -> UpdateWithAttrs(ctx, d)
    [] st = "stmt" -> ctx
    [] st = "child" -> LET fresh == FromPsess(cfg)
                       IN [m |-> Update(fresh.m, ctx.m), a |-> Update(fresh.a, ctx.a)]
RECURSIVE StepsOf(_, _, _, _, _, _)
StepsOf(ctx, sts, i, d, cfg, cr) ==
  IF i > Len(sts) THEN ctx
  ELSE LET dd == IF i = 1 THEN d ELSE "none"
           nxt == IF sts[i] \in {"fileI", "fileO"} THEN FileStep(sts[i], dd, cfg, cr)
                  ELSE Step(ctx, sts[i], dd, cfg)
       IN StepsOf(nxt, sts, i + 1, d, cfg, cr)
RECURSIVE Walk(_, _, _, _, _)
Walk(ctx, path, i, cfg, cr) ==
  IF i > Len(path) THEN ctx
  ELSE Walk(StepsOf(ctx, Steps(path[i].c), 1, path[i].d, cfg, cr), path, i + 1, cfg, cr)
OperCtx(crated, path, cfg) == Walk(Step(FromPsess(cfg), "crate", crated, cfg), path, 1, cfg, crated)
Skips(ctx, name) == ctx.all \/ name \in ctx.names
OperSkipsTarget(crated, path, cfg, t) ==
  LET ctx == OperCtx(crated, path, cfg)
  IN IF IsMacroTarget(t) THEN Skips(ctx.m, "m") ELSE Skips(ctx.a, "a")
(* the promise: the name is declared on the crate or on a construct that encloses the target,
   or (macros) named by skip_macro_invocations *)
DeclSkipsTarget(crated, path, cfg, t) ==
  LET Ds == {crated} \cup {path[i].d : i \in DOMAIN path}
  IN IF IsMacroTarget(t) THEN (\E d \in Ds : d \in {"M", "MA"}) \/ cfg \in {"m", "star"}
     ELSE \E d \in Ds : d \in {"A", "MA"}

(* ---- exploration ----------------------------------------------------------*)
VARIABLES crated, path
vars == <<crated, path>>
Last == IF path = <<>> THEN "top" ELSE path[Len(path)].c
NDecl == Cardinality({i \in DOMAIN path : path[i].d # "none"}) + (IF crated = "none" THEN 0 ELSE 1)
Init == crated \in {"none", "M", "A", "MA"} /\ path = <<>>
Next == /\ Len(path) < MaxDepth
        /\ \E c \in Children(Last), d \in {"none", "M", "A", "MA"} :
             /\ d # "none" => c \in Declaring /\ NDecl < MaxDecl
             /\ path' = Append(path, [c |-> c, d |-> d])
        /\ UNCHANGED crated
Spec == Init /\ [][Next]_vars

(* one line per scenario *)
NameScenarios ==
  \A t \in NameTargets(Last) : \A cfg \in Cfgs :
    (cfg = "none" \/ IsMacroTarget(t)) =>
    PrintT(ToJson([tag |-> "SC", kind |-> "name", crated |-> crated, path |-> path, cfg |-> cfg, target |-> t,
                   oper |-> OperSkipsTarget(crated, path, cfg, t),
                   decl |-> DeclSkipsTarget(crated, path, cfg, t)]))
NodeScenarios ==
  (NDecl = 0) =>
  \A k \in SkipNodes(Last) : \A sp \in Spellings :
    \* (a doc comment cannot stand between `return` and its operand: not Rust)
    (k = "retval" /\ sp = "doc_before") \/
    PrintT(ToJson([tag |-> "SC", kind |-> "node", crated |-> crated, path |-> path, node |-> k, spelling |-> sp,
                   oper |-> OperIsSkip(sp), decl |-> DeclIsSkip(sp)]))
(* ---- (d) whole-file opt-outs ------------------------------------------------*)
(* decided before the file is formatted (src/formatting.rs format_project / should_skip_module,
   src/modules.rs for a skipped `mod x;`): the file is neither changed nor reported as differing,
   whatever the emit mode, while the other files of the same run are formatted *)
OptOuts == {"inner_skip", "inner_depr", "inner_cfg_skip", "disable_all", "ignore", "generated",
            "skipped_mod_decl", "inner_skip_child",
            \* the skipped declaration stands in a file that is not the root / in an inline module
            \* of such a file / inside cfg_if! (other entry points of the module resolver)
            "skipped_mod_decl_nonroot", "skipped_mod_decl_inline", "skipped_mod_decl_cfg_if",
            \* other spellings of the @generated marker within the first lines of the file
            "generated_block1", "generated_blockend", "generated_aftercode", "generated_docinner",
            "generated_star", "generated_line5",
            \* the opted-out child is reached through cfg_attr(.., path = ..): named twice, or named
            \* once next to another file while it is also the declaration's default file
            "inner_skip_twopaths", "inner_skip_path_default"}
Modes == {"files", "check", "list", "stdout_diff"}
OptOutScenarios ==
  (path = <<>> /\ crated = "none") =>
  \A o \in OptOuts : \A md \in Modes :
    PrintT(ToJson([tag |-> "SC", kind |-> "optout", optout |-> o, mode |-> md,
                   expect |-> [unchanged |-> TRUE, reported |-> FALSE,
                               exit0 |-> TRUE, siblings_formatted |-> (o # "disable_all")]]))
Scenarios == NameScenarios /\ NodeScenarios /\ OptOutScenarios

(* the design claims checked on the model itself: outside the one place the code does not look
   at (a declaration on a let / expression statement) the transcription keeps the promise *)
(* ... and a declaration in the parent file above an out-of-line module, or on its `mod x;` *)
LooksEverywhere ==
  \A i \in DOMAIN path : path[i].d # "none" =>
     /\ path[i].c \notin {"letd", "modfileO"}
     /\ \A j \in DOMAIN path : j > i => path[j].c \notin FileCtx
ScopingSound ==
  \A t \in NameTargets(Last) : \A cfg \in Cfgs :
    LooksEverywhere => OperSkipsTarget(crated, path, cfg, t) = DeclSkipsTarget(crated, path, cfg, t)
(* the code never skips a name nobody declared *)
NoSpuriousSkip ==
  \A t \in NameTargets(Last) : \A cfg \in Cfgs :
    OperSkipsTarget(crated, path, cfg, t) => DeclSkipsTarget(crated, path, cfg, t)
=============================================================================
