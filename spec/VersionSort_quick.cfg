SPECIFICATION Spec
CONSTANTS
  Alphabet = {"a", "_", "0", "1"}
  MaxLen = 2
  Extra <- MCExtra
INVARIANTS Reflexive Antisymmetric Transitive EquivTransitive
