SPECIFICATION Spec
CONSTANTS
  Alphabet = {"/", "*", "!", "x", " "}
  MaxLen = 6
INVARIANTS Agreement Predict
CHECK_DEADLOCK FALSE
