SPECIFICATION Spec
INVARIANTS ReportInv
