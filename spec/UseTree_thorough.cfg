SPECIFICATION Spec
CONSTANTS
  NNames = 2
  NAlias = 1
  NItems = 2
  Grans = {"Item", "Module", "Crate", "One"}
  Viss = {"priv"}
  MaxList = 2
INVARIANTS Scenario
CHECK_DEADLOCK FALSE
