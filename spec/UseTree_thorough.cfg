SPECIFICATION Spec
CONSTANTS
  NNames = 3
  NAlias = 1
  NItems = 2
  Grans = {"Item", "Module", "Crate", "One"}
  Viss = {"priv"}
  MaxList = 1
INVARIANTS Scenario
CHECK_DEADLOCK FALSE
