------------------------------- MODULE FsSem --------------------------------
(***************************************************************************)
(* Replays the file-system calls recorded (by strace, i.e. independently   *)
(* of any hook) from a real `rustfmt` run over a set of watched files and  *)
(* evaluates the declarative clauses of C20 / C05 / C06 in EVERY           *)
(* intermediate state.  Nothing here knows the backup protocol: the        *)
(* actions are the POSIX meaning of the calls.                             *)
(*                                                                         *)
(* Trace records (ndjson, IOEnv.TRACE):                                    *)
(*  {ev:"reset", run, mode:"backup"|"plain"|"readonly", n, changed:[..], disk0:[..]}   *)
(*  {ev:"trunc", i, name}   open(O_TRUNC|O_CREAT) of name of file i        *)
(*  {ev:"write", i, name, complete: b}  data written; complete = the file  *)
(*                           now holds the whole formatted text             *)
(*  {ev:"rename", i, from, to}                                             *)
(*  {ev:"unlink", i, name}                                                 *)
(*  {ev:"end", run, ok: b}  the process ended; ok = exit 0                  *)
(***************************************************************************)
EXTENDS Naturals, Sequences, FiniteSets, TLC, Json, IOUtils

Rec == ndJsonDeserialize(IOEnv.TRACE)

VARIABLES l, mode, n, changed, disk0, disk, ended

vars == <<l, mode, n, changed, disk0, disk, ended>>

Fresh == [f |-> "orig", tmp |-> "absent", bk |-> "absent"]

Init ==
  /\ l = 1 /\ mode = "none" /\ n = 0 /\ changed = <<>> /\ disk0 = <<>> /\ disk = <<>> /\ ended = TRUE

IsEv(e) == l <= Len(Rec) /\ Rec[l].ev = e /\ l' = l + 1

Reset ==
  /\ IsEv("reset")
  /\ mode' = Rec[l].mode /\ n' = Rec[l].n /\ changed' = Rec[l].changed
  /\ disk0' = [i \in 1 .. Rec[l].n |-> Rec[l].disk0[i]]
  /\ disk' = disk0'
  /\ ended' = FALSE

Get(d, name) == IF name = "f" THEN d.f ELSE IF name = "tmp" THEN d.tmp ELSE d.bk
Put(d, name, c) ==
  IF name = "f" THEN [d EXCEPT !.f = c]
  ELSE IF name = "tmp" THEN [d EXCEPT !.tmp = c] ELSE [d EXCEPT !.bk = c]

Trunc ==
  /\ IsEv("trunc") /\ ~ended
  /\ disk' = [disk EXCEPT ![Rec[l].i] = Put(@, Rec[l].name, "partial")]
  /\ UNCHANGED <<mode, n, changed, disk0, ended>>

Write ==
  /\ IsEv("write") /\ ~ended
  /\ disk' = [disk EXCEPT ![Rec[l].i] =
                 Put(@, Rec[l].name, IF Rec[l].complete THEN "new" ELSE "partial")]
  /\ UNCHANGED <<mode, n, changed, disk0, ended>>

Rename ==
  /\ IsEv("rename") /\ ~ended
  /\ LET i == Rec[l].i
         src == Get(disk[i], Rec[l].from)
     IN disk' = [disk EXCEPT ![i] = Put(Put(@, Rec[l].to, src), Rec[l].from, "absent")]
  /\ UNCHANGED <<mode, n, changed, disk0, ended>>

Unlink ==
  /\ IsEv("unlink") /\ ~ended
  /\ disk' = [disk EXCEPT ![Rec[l].i] = Put(@, Rec[l].name, "absent")]
  /\ UNCHANGED <<mode, n, changed, disk0, ended>>

End ==
  /\ IsEv("end") /\ ~ended
  /\ ended' = TRUE
  /\ UNCHANGED <<mode, n, changed, disk0, disk>>

Next == Reset \/ Trunc \/ Write \/ Rename \/ Unlink \/ End

Spec == Init /\ [][Next]_vars

-----------------------------------------------------------------------------
(* C20: in backup mode, at every instant.                                   *)
OriginalRecoverable ==
  mode = "backup" => \A i \in 1 .. n : disk[i].f = "orig" \/ disk[i].bk = "orig"
NeverPartialTarget ==
  mode = "backup" => \A i \in 1 .. n : disk[i].f \in {"absent", "orig", "new"}
(* C06: the read-only emitters never touch anything.                        *)
ReadOnly == mode = "readonly" => \A i \in 1 .. n : disk[i] = disk0[i]
(* C06: files mode touches a file only if its formatted text differs.       *)
TouchOnlyChanged ==
  \A i \in 1 .. n : ~changed[i] => disk[i] = disk0[i]
(* After a run that ended with exit 0.                                      *)
PostState ==
  (ended /\ l > 1 /\ Rec[l - 1].ev = "end" /\ Rec[l - 1].ok /\ mode # "readonly") =>
     \A i \in 1 .. n :
        IF changed[i]
          THEN /\ disk[i].f = "new"
               /\ mode = "backup" => disk[i].bk = "orig" /\ disk[i].tmp = "absent"
          ELSE disk[i] = disk0[i]

(* Acceptance: every line consumed.  On rejection print where it stopped.   *)
Accepted ==
  LET d == TLCGet("stats").diameter
  IN IF d - 1 = Len(Rec) THEN TRUE
     ELSE PrintT(<<"REJECTED_AT", d>>) /\ FALSE
=============================================================================
