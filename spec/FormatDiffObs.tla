--------------------------- MODULE FormatDiffObs ----------------------------
(* C19's clauses evaluated by TLC on observed runs of the real                *)
(* rustfmt-format-diff with a recording stand-in for rustfmt.                 *)
(* Record: {exp:[[name,lo,hi]..], got:[[name,lo,hi]..], files:[name..],       *)
(*          runs, standin, exit}   (names are strings)                        *)
EXTENDS Naturals, Sequences, FiniteSets, TLC, Json, IOUtils
Rec == ndJsonDeserialize(IOEnv.TRACE)
VARIABLE l
Init == l = 1
Next == l < Len(Rec) /\ l' = l + 1
Spec == Init /\ [][Next]_l
R == Rec[l]
AsSet(s) == {s[j] : j \in 1 .. Len(s)}

(* precisely the announced post-image range of every hunk of every matching file *)
RangesExact == AsSet(R.got) = AsSet(R.exp) /\ Len(R.got) = Len(R.exp)
(* precisely the files that have such a range, each once *)
FilesExact == AsSet(R.files) = {r[1] : r \in AsSet(R.exp)} /\ Len(R.files) = Cardinality(AsSet(R.files))
(* an empty result runs nothing; a non-empty one runs rustfmt once *)
RunsOnce == R.runs = (IF R.exp = <<>> THEN 0 ELSE 1)
(* a failing rustfmt makes the tool fail *)
FailPropagates == IF R.runs = 0 THEN R.exit = 0 ELSE (R.exit # 0) <=> (R.standin # 0)

Names == {"RangesExact", "FilesExact", "RunsOnce", "FailPropagates"}
Holds(n) == CASE n = "RangesExact" -> RangesExact [] n = "FilesExact" -> FilesExact
              [] n = "RunsOnce" -> RunsOnce [] n = "FailPropagates" -> FailPropagates
ReportInv ==
  LET F == {n \in Names : ~Holds(n)}
  IN F = {} \/ PrintT(ToJson([tag |-> "FAIL", l |-> l, fails |-> F]))
=============================================================================
