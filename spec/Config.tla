------------------------------- MODULE Config -------------------------------
(***************************************************************************)
(* Configuration resolution (src/config/mod.rs load_config /               *)
(* from_resolved_toml_path / from_toml_path, config_type.rs                *)
(* fill_from_parsed_config / set_heuristics / deprecated aliases,          *)
(* bin/main.rs GetOptsOptions::apply_to).  Property C14.                   *)
(*                                                                         *)
(* A scenario (one ndjson record):                                         *)
(*  chain   : [ {dotted: Cfg|none, plain: Cfg|none} ]  from the input      *)
(*            file's directory upwards                                     *)
(*  home, confdir, cpath : Cfg | none    (--config-path replaces search)   *)
(*  cli     : {pairs: Cfg, edition, style_edition}  ("" = flag not given)  *)
(*  Cfg     = {present:b, ints:[[key,n]..], strs:[[key,s]..]}              *)
(*  obs     : {ints:[[key,n]..], strs:[[key,s]..]}  from                   *)
(*            `rustfmt --print-config current <file>` (re-parsed TOML)     *)
(***************************************************************************)
EXTENDS Naturals, Sequences, FiniteSets, TLC, Json, IOUtils
Rec == ndJsonDeserialize(IOEnv.TRACE)
VARIABLE l
Init == l = 1
Next == l < Len(Rec) /\ l' = l + 1
Spec == Init /\ [][Next]_l
S == Rec[l]

Has(m, k) == \E i \in 1 .. Len(m) : m[i][1] = k
Get(m, k) == m[CHOOSE i \in 1 .. Len(m) : m[i][1] = k][2]

(* ---- which file? ---- *)
RECURSIVE Nearest(_)
Nearest(i) ==
  IF i > Len(S.chain) THEN [present |-> FALSE]
  ELSE IF S.chain[i].dotted.present THEN S.chain[i].dotted      \* the dotted name wins
  ELSE IF S.chain[i].plain.present THEN S.chain[i].plain
  ELSE Nearest(i + 1)
File ==
  IF S.cpath.present THEN S.cpath                                 \* replaces the search wholesale
  ELSE LET n == Nearest(1) IN
       IF n.present THEN n
       ELSE IF S.home.present THEN S.home
       ELSE IF S.confdir.present THEN S.confdir
       ELSE [present |-> FALSE, ints |-> <<>>, strs |-> <<>>]
FInts == IF File.present THEN File.ints ELSE <<>>
FStrs == IF File.present THEN File.strs ELSE <<>>

(* ---- one option: --config pair > dedicated flag > file > default ---- *)
CliStr(k) == IF Has(S.cli.pairs.strs, k) THEN Get(S.cli.pairs.strs, k)
             ELSE IF k = "edition" /\ S.cli.edition # "" THEN S.cli.edition
             ELSE IF k = "style_edition" /\ S.cli.style_edition # "" THEN S.cli.style_edition
             ELSE ""
EffStr(k, default) == IF CliStr(k) # "" THEN CliStr(k)
                      ELSE IF Has(FStrs, k) THEN Get(FStrs, k) ELSE default
EffInt(k, default) == IF Has(S.cli.pairs.ints, k) THEN Get(S.cli.pairs.ints, k)
                      ELSE IF Has(FInts, k) THEN Get(FInts, k) ELSE default
IsSetInt(k) == Has(S.cli.pairs.ints, k) \/ Has(FInts, k)
IsSetStr(k) == CliStr(k) # "" \/ Has(FStrs, k)

(* ---- the effective style edition: style_edition, else legacy version, else edition;
        for each key the command line beats the file ---- *)
(* (a `--config` pair beats the dedicated flag: GetOptsOptions::edition / style_edition     *)
(*  look at inline_config first)                                                            *)
SEKey == IF Has(S.cli.pairs.strs, "style_edition") THEN Get(S.cli.pairs.strs, "style_edition")
         ELSE IF S.cli.style_edition # "" THEN S.cli.style_edition
         ELSE IF Has(FStrs, "style_edition") THEN Get(FStrs, "style_edition") ELSE ""
VerKey == IF Has(S.cli.pairs.strs, "version") THEN Get(S.cli.pairs.strs, "version")
          ELSE IF Has(FStrs, "version") THEN Get(FStrs, "version") ELSE ""
EdKey == IF Has(S.cli.pairs.strs, "edition") THEN Get(S.cli.pairs.strs, "edition")
         ELSE IF S.cli.edition # "" THEN S.cli.edition
         ELSE IF Has(FStrs, "edition") THEN Get(FStrs, "edition") ELSE ""
EffStyleEdition ==
  IF SEKey # "" THEN SEKey
  ELSE IF VerKey # "" THEN (IF VerKey = "Two" THEN "2024" ELSE "2015")
  ELSE IF EdKey # "" THEN (IF EdKey = "2024" THEN "2024" ELSE "2015")
  ELSE "2015"

(* ---- observed ---- *)
OInt(k) == Get(S.obs.ints, k)
OStr(k) == Get(S.obs.strs, k)

(* kind "print": obs is the whole printed configuration; kind "probe": the file was       *)
(* FORMATTED (possibly after other files in the same invocation) and obs holds only the   *)
(* tab_spaces revealed by its indentation                                                 *)
IsPrint == S.kind = "print"
ProbeRight == S.kind = "probe" => OInt("tab_spaces") = EffInt("tab_spaces", 4)
RightFile == IsPrint =>
             /\ OInt("max_width") = EffInt("max_width", 100)
             /\ OInt("tab_spaces") = EffInt("tab_spaces", 4)
             /\ OStr("hard_tabs") = EffStr("hard_tabs", "false")
             /\ OStr("newline_style") = EffStr("newline_style", "Auto")
StyleEditionPrecedence == IsPrint => OStr("style_edition") = EffStyleEdition
EditionKept == IsPrint => OStr("edition") = EffStr("edition", "2015")
(* defaults follow the effective style edition (the legacy `version` is the one option whose *)
(* default differs between released style editions)                                         *)
DefaultsOfStyleEdition ==
  (IsPrint /\ ~IsSetStr("version")) =>
     OStr("version") = (IF EffStyleEdition = "2024" THEN "Two" ELSE "One")
(* widths: explicit beats derived; nothing exceeds max_width *)
Widths == {"fn_call_width", "attr_fn_like_width", "struct_lit_width", "struct_variant_width",
           "array_width", "chain_width", "single_line_if_else_max_width",
           "single_line_let_else_max_width"}
WidthsBounded == IsPrint => \A w \in Widths : Has(S.obs.ints, w) => OInt(w) <= OInt("max_width")
(* an explicit width that fits under the max_width of the file it comes from and under the *)
(* final max_width is kept as given (a larger one is clamped, with a warning)              *)
FileMaxWidth == IF Has(FInts, "max_width") THEN Get(FInts, "max_width") ELSE 100
ExplicitWidthKept ==
  IsPrint => \A w \in Widths :
     (IsSetInt(w) /\ EffInt(w, 0) <= FileMaxWidth /\ EffInt(w, 0) <= EffInt("max_width", 100)
        /\ ~IsSetStr("use_small_heuristics"))
     => OInt(w) = EffInt(w, 0)
(* deprecated aliases map to their successors *)
Aliases ==
  IsPrint =>
  /\ (IsSetStr("hide_parse_errors") /\ ~IsSetStr("show_parse_errors")) =>
        OStr("show_parse_errors") = (IF EffStr("hide_parse_errors", "") = "true" THEN "false" ELSE "true")
  /\ (IsSetStr("merge_imports") /\ ~IsSetStr("imports_granularity")) =>
        OStr("imports_granularity") = (IF EffStr("merge_imports", "") = "true" THEN "Crate" ELSE "Preserve")
  /\ (IsSetStr("fn_args_layout") /\ ~IsSetStr("fn_params_layout")) =>
        OStr("fn_params_layout") = EffStr("fn_args_layout", "")
(* the printed configuration re-parses to itself *)
RoundTrip == S.roundtrip_ok
(* same value, same effect: file, --config and API agree (projection computed by the harness) *)
SourcesAgree == S.sources_agree

ReportInv ==
  LET F == {n \in {"ProbeRight", "RightFile", "StyleEditionPrecedence", "EditionKept", "DefaultsOfStyleEdition",
                   "WidthsBounded", "ExplicitWidthKept", "Aliases", "RoundTrip", "SourcesAgree"} :
              ~(CASE n = "RightFile" -> RightFile [] n = "ProbeRight" -> ProbeRight
                  [] n = "StyleEditionPrecedence" -> StyleEditionPrecedence
                  [] n = "EditionKept" -> EditionKept
                  [] n = "DefaultsOfStyleEdition" -> DefaultsOfStyleEdition
                  [] n = "WidthsBounded" -> WidthsBounded
                  [] n = "ExplicitWidthKept" -> ExplicitWidthKept
                  [] n = "Aliases" -> Aliases [] n = "RoundTrip" -> RoundTrip
                  [] n = "SourcesAgree" -> SourcesAgree)}
  IN F = {} \/ PrintT(ToJson([tag |-> "FAIL", l |-> l, fails |-> F, file |-> File,
                               se |-> EffStyleEdition]))
=============================================================================
