------------------------------ MODULE ModTree -------------------------------
(***************************************************************************)
(* Which files does `rustfmt <root>` reach?  Property C13.                 *)
(*                                                                         *)
(*  Reach : the DECLARATIVE rule -- the language's module-file rules as    *)
(*          stated in the property (name.rs / name/mod.rs relative to the  *)
(*          declaring file's module directory, inline nesting, #[path],    *)
(*          cfg_if bodies, the documented fallback to the declaring file's *)
(*          own directory), plus rustfmt's root rule (an input file with a *)
(*          sibling directory named like its stem is a non-mod-rs file).   *)
(*  Walk  : the OPERATIONAL transcription of src/modules.rs `ModResolver`  *)
(*          (directory stack with `Owned{relative}` / `UnownedViaBlock`,   *)
(*          `push_inline_mod_directory` with its `relative.take()` and the *)
(*          "x.rs next to x/" special case, `default_submod_path` retry,   *)
(*          `is_file_parsed` short-cuts, file_map `or_insert`).            *)
(*                                                                         *)
(* A scenario (one ndjson record) is a concrete file system:               *)
(*   files : [{path: <<dir.., stem>>, items: [Item..], skip: b}]            *)
(*           (<<"src","a">> is src/a.rs, <<"src","a","mod">> is a/mod.rs)  *)
(*   dirs  : [<<..>>]  directories that exist                               *)
(*   root  : path of the root file                                          *)
(*   Item  : {k:"decl"|"path"|"inline"|"cfgif", name, rel:[..], items:[..], *)
(*            skip:b}                                                       *)
(* and, after replay, `changed` (files whose bytes changed), `exit`.        *)
(***************************************************************************)
EXTENDS Naturals, Sequences, FiniteSets, TLC, Json, IOUtils

Rec == ndJsonDeserialize(IOEnv.TRACE)

VARIABLE l
Init == l = 1
Next == l < Len(Rec) /\ l' = l + 1
Spec == Init /\ [][Next]_l
S == Rec[l]

Dir(p) == SubSeq(p, 1, Len(p) - 1)
Stem(p) == p[Len(p)]
FileSet(sc) == {sc.files[i].path : i \in 1 .. Len(sc.files)}
DirSet(sc) == {sc.dirs[i] : i \in 1 .. Len(sc.dirs)}
Entry(sc, p) == sc.files[CHOOSE i \in 1 .. Len(sc.files) : sc.files[i].path = p]
Exists(sc, p) == p \in FileSet(sc)
IsDir(sc, d) == d \in DirSet(sc)
PathExists(sc, p) == Exists(sc, p) \/ IsDir(sc, p)   \* Path::exists on a dir or a "x.rs"-less name

OK(s) == [s |-> s, e |-> FALSE, g |-> FALSE]
ERR == [s |-> {}, e |-> TRUE, g |-> FALSE]
Join(a, b) == [s |-> a.s \cup b.s, e |-> a.e \/ b.e, g |-> a.g \/ b.g]

-----------------------------------------------------------------------------
(* Declarative.                                                             *)
RECURSIVE RFile(_, _, _, _), RItems(_, _, _, _, _, _, _, _), RItem(_, _, _, _, _, _, _)

(* candidates in directory D for `mod name;` *)
Cand1(D, name) == Append(D, name)                    \* D/name.rs
Cand2(D, name) == Append(Append(D, name), "mod")     \* D/name/mod.rs

RLookup(sc, D, name, visited) ==
  LET c1 == Cand1(D, name)  c2 == Cand2(D, name) IN
  IF Exists(sc, c1) /\ Exists(sc, c2) THEN [found |-> "both"]
  ELSE IF Exists(sc, c1) THEN [found |-> "one", p |-> c1, modrs |-> FALSE]
  ELSE IF Exists(sc, c2) THEN [found |-> "one", p |-> c2, modrs |-> TRUE]
  ELSE [found |-> "none"]

RFile(sc, p, modrs, visited) ==
  IF p \in visited \/ Entry(sc, p).skip THEN OK({})
  ELSE LET D == IF modrs THEN Dir(p) ELSE Append(Dir(p), Stem(p))
           r == RItems(sc, Entry(sc, p).items, 1, D, p, FALSE, modrs, visited \cup {p})
       IN [s |-> {p} \cup r.s, e |-> r.e, g |-> FALSE]

RItems(sc, items, j, D, f, inInline, modrs, visited) ==
  IF j > Len(items) THEN OK({})
  ELSE LET first == RItem(sc, items[j], D, f, inInline, modrs, visited)
           rest == RItems(sc, items, j + 1, D, f, inInline, modrs, visited \cup first.s)
       IN Join(first, rest)

RItem(sc, it, D, f, inInline, modrs, visited) ==
  IF it.skip THEN OK({})
  ELSE CASE it.k = "decl" ->
         LET a == RLookup(sc, D, it.name, visited) IN
         IF a.found = "both" THEN ERR
         ELSE IF a.found = "one" THEN RFile(sc, a.p, a.modrs, visited)
         ELSE (* the documented fallback: a non-mod-rs file may keep its children beside itself *)
              IF ~modrs /\ ~inInline
                THEN LET b == RLookup(sc, Dir(f), it.name, visited) IN
                     IF b.found = "one" THEN RFile(sc, b.p, b.modrs, visited) ELSE ERR
                ELSE ERR
       [] it.k = "path" ->
         LET t == (IF inInline THEN D ELSE Dir(f)) \o it.rel IN
         IF Exists(sc, t) THEN RFile(sc, t, TRUE, visited) ELSE ERR
       [] it.k = "inline" ->
         RItems(sc, it.items, 1, Append(D, it.name), f, TRUE, modrs, visited)
       [] it.k = "cfgif" ->
         RItems(sc, it.items, 1, D, f, inInline, modrs, visited)

RootModrs(sc) == ~IsDir(sc, Append(Dir(sc.root), Stem(sc.root)))
Reach(sc) == RFile(sc, sc.root, RootModrs(sc), {})

-----------------------------------------------------------------------------
(* Operational: ModResolver.  directory = [path, rel] with rel = "" for       *)
(* Owned{relative: None} and for UnownedViaBlock (they are treated alike).    *)
RECURSIVE WItems(_, _, _, _, _), WItem(_, _, _, _), WExternal(_, _, _, _)

(* ParseSess::default_submod_path with the retry of parse/session.rs *)
WDefault(sc, dirp, rel, name) ==
  LET base == IF rel = "" THEN dirp ELSE Append(dirp, rel)
      a == RLookup(sc, base, name, {}) IN
  IF a.found = "none" /\ rel # ""             \* retry only after FileNotFound
    THEN LET b == RLookup(sc, dirp, name, {}) IN
         IF b.found = "one" THEN b ELSE a       \* keeps the first error
    ELSE a

(* visit an external file: directory = parent dir of the file, ownership from the lookup *)
WExternal(sc, p, rel, parsed) ==
  LET r == WItems(sc, Entry(sc, p).items, 1, [path |-> Dir(p), rel |-> rel], parsed \cup {p})
  IN [s |-> {p} \cup r.s, e |-> r.e, g |-> r.g]

WItems(sc, items, j, dir, parsed) ==
  IF j > Len(items) THEN OK({})
  ELSE LET first == WItem(sc, items[j], dir, parsed)
           rest == WItems(sc, items, j + 1, dir, parsed \cup first.s)   \* directory restored
       IN Join(first, rest)

WItem(sc, it, dir, parsed) ==
  IF it.skip THEN OK({})
  ELSE CASE it.k = "decl" ->
         LET a == WDefault(sc, dir.path, dir.rel, it.name) IN
         IF a.found # "one" THEN ERR
         ELSE IF a.p \in parsed THEN OK({})                    \* is_file_parsed
         ELSE IF Entry(sc, a.p).skip THEN OK({})               \* inner skip attribute
         ELSE WExternal(sc, a.p, IF a.modrs THEN "" ELSE it.name, parsed)
       [] it.k = "path" ->
         LET t == dir.path \o it.rel IN
         IF ~Exists(sc, t) THEN ERR
         ELSE IF t \in parsed THEN OK({})
         ELSE IF Entry(sc, t).skip THEN OK({})
         ELSE WExternal(sc, t, "", parsed)
       [] it.k = "inline" ->
         (* push_inline_mod_directory *)
         LET p1 == IF dir.rel # "" THEN Append(dir.path, dir.rel) ELSE dir.path
             keep == dir.rel # "" /\ PathExists(sc, p1) /\ ~PathExists(sc, Append(p1, it.name))
             p2 == IF keep THEN p1 ELSE Append(p1, it.name)
             r == WItems(sc, it.items, 1, [path |-> p2, rel |-> ""], parsed)
         (* g: the walk took the "do not push the inline module's name" branch *)
         IN [s |-> r.s, e |-> r.e, g |-> r.g \/ keep]
       [] it.k = "cfgif" ->
         WItems(sc, it.items, 1, dir, parsed)

Walk(sc) ==
  LET rel == IF RootModrs(sc) THEN "" ELSE Stem(sc.root)
      r == WItems(sc, Entry(sc, sc.root).items, 1, [path |-> Dir(sc.root), rel |-> rel], {sc.root})
  IN [s |-> {sc.root} \cup r.s, e |-> r.e, g |-> r.g]

-----------------------------------------------------------------------------
Decoys(sc, r) == FileSet(sc) \ r.s

(* model level: the transcription agrees with the rule *)
WalkIsReach == LET a == Reach(S) b == Walk(S) IN
               (a.e = b.e) /\ (~a.e => a.s = b.s)

(* observation level (records that carry `changed`, `exit`) *)
HasObs == "changed" \in DOMAIN S
Changed == {S.changed[i] : i \in 1 .. Len(S.changed)}
(* every file is deliberately unformatted, so "formatted" = "bytes changed" *)
(* exclusions applied after resolution (formatting.rs should_skip_module):     *)
(* opt = "skip_children": no recursion at all, only the root is formatted;      *)
(* opt = "ignore" / "generated": the target file is dropped, its children stay  *)
Opt == IF "opt" \in DOMAIN S THEN S.opt ELSE "none"
Expect(r) ==
  IF Opt = "skip_children" THEN [s |-> {S.root}, e |-> FALSE]
  ELSE IF Opt \in {"ignore", "generated"} THEN [s |-> r.s \ {S.target}, e |-> r.e]
  ELSE [s |-> r.s, e |-> r.e]
ExactlyReachable ==
  HasObs => LET a == Expect(Reach(S)) IN
            IF a.e THEN Changed = {} /\ S.exit = 1
            ELSE Changed = a.s /\ S.exit = 0
AsWalk ==
  HasObs => LET b == Expect(Walk(S)) IN
            IF b.e THEN Changed = {} /\ S.exit = 1 ELSE Changed = b.s /\ S.exit = 0

ReportInv ==
  LET a == Reach(S)  b == Walk(S)
      F == {n \in {"WalkIsReach", "ExactlyReachable", "AsWalk"} :
              ~(CASE n = "WalkIsReach" -> WalkIsReach [] n = "ExactlyReachable" -> ExactlyReachable
                  [] n = "AsWalk" -> AsWalk)}
  IN PrintT(ToJson([tag |-> "RES", l |-> l, fails |-> F,
                    reach |-> a.s, reach_err |-> a.e, walk |-> b.s, walk_err |-> b.e,
                    guess |-> b.g]))
=============================================================================
