SPECIFICATION Spec
INVARIANTS ReportInv
