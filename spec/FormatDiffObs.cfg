SPECIFICATION Spec
INVARIANTS ReportInv
