SPECIFICATION Spec
INVARIANTS ReportInvP
