SPECIFICATION Spec
INVARIANTS HunkConsistent Ordered EmptyIff NoEmptyHunk ApplyOK RoundTrip ChunksFromHunks HunksRebuild JsonOK CheckstyleOK ContextBound
