---------------------------- MODULE TokenLedger -----------------------------
(***************************************************************************)
(* C01: formatting preserves the meaning of the program.                   *)
(*                                                                         *)
(* Input and output are parsed by rustc_parse and printed by               *)
(* rustc_ast_pretty (layout and everything the AST does not record are     *)
(* erased; macro token trees survive token by token; imports, extern       *)
(* crates and out-of-line mod declarations are judged by C10 / C11 and     *)
(* left out).  The two token sequences are aligned; every difference is a  *)
(* single-token EDIT                                                       *)
(*   {op: "del"|"ins", tok, cls, prev, prev2, next, after, head, pos, solo} *)
(* (prev/prev2: the tokens before it in the rebuilt output stream, next:   *)
(* the next input token, after: the next output token, head: first token   *)
(* of the enclosing statement, pos: the gap it sits in).                   *)
(*                                                                         *)
(* An execution is ACCEPTED iff the output parses, every edit is an        *)
(* instance of one of the style normalisations the property names (the     *)
(* rules below, each with its guard) and the delimiter edits balance.      *)
(***************************************************************************)
EXTENDS Naturals, Sequences, FiniteSets, TLC, Json, IOUtils
Rec == ndJsonDeserialize(IOEnv.TRACE)
VARIABLE l
Init == l = 1
Next == l < Len(Rec) /\ l' = l + 1
Spec == Init /\ [][Next]_l
R == Rec[l]
E == R.edits

Closers == {")", "]", "}", ">"}
Openers == {"(", "[", "{"}
Close(t) == CASE t = "(" -> ")" [] t = "[" -> "]" [] t = "{" -> "}"
Same(k, P(_)) == \E j \in 1 .. Len(E) : j # k /\ E[j].pos = E[k].pos /\ P(E[j])
ArrowBefore(e) == e.prev = ">" /\ e.prev2 = "="

(* ---- the closed set of normalisations ---- *)
(* optional trailing separators -- the comma of a one-element tuple `(x,)` is not one of them: *)
(* without it the parentheses mean grouping (e.solo: the only top-level comma of a            *)
(* parenthesised group that is not an argument list, standing right before the `)`)           *)
TrailingComma(e) == e.tok = "," /\ ~e.solo
                    /\ (e.next \in Closers \/ e.after \in Closers \/ e.prev = "}")
RedundantSemi(e) == e.tok = ";" /\ e.op = "del" /\ e.prev \in {";", "}", "{"}
(* `return x` / `break` / `continue` as the last statement of a block gain a `;` *)
DivergingSemi(e) == e.tok = ";" /\ e.op = "ins" /\ e.head \in {"return", "break", "continue"}
                    /\ e.after = "}"
(* redundant nested parentheses / parentheses the parse requires *)
NestedParen(k) == LET e == E[k] IN
  \/ (e.op = "del" /\ e.tok = "(" /\ (e.prev = "(" \/ e.next = "("))
  \/ (e.op = "del" /\ e.tok = ")" /\ (e.prev = ")" \/ e.next = ")"))
RequiredParen(k) == LET e == E[k] IN
  \/ (e.op = "ins" /\ e.tok = "(" /\ Same(k, LAMBDA x : x.op = "ins" /\ x.cls = "floatdot"))
  \/ (e.op = "ins" /\ e.tok = ")" /\ Same(k, LAMBDA x : x.op = "ins" /\ x.cls = "floatdot"))
  \/ (e.op = "ins" /\ e.cls = "floatdot" /\ Same(k, LAMBDA x : x.op = "del" /\ x.cls = "num"))
  \/ (e.op = "del" /\ e.cls = "num" /\ Same(k, LAMBDA x : x.op = "ins" /\ x.cls = "floatdot"))
  (* the other direction of the respelling (float_literal_trailing_zero: `1.` -> `1.0`) *)
  \/ (e.op = "del" /\ e.cls = "floatdot" /\ Same(k, LAMBDA x : x.op = "ins" /\ x.cls = "num"))
  \/ (e.op = "ins" /\ e.cls = "num" /\ Same(k, LAMBDA x : x.op = "del" /\ x.cls = "floatdot"))
  \/ (e.op = "del" /\ e.tok = "." /\
        \E j \in 1 .. Len(E) : E[j].op = "ins" /\ E[j].cls = "floatdot"
                                /\ E[j].pos <= e.pos /\ e.pos <= E[j].pos + 1)
(* empty generic lists, binders and where-clauses *)
EmptyList(k) == LET e == E[k] IN
  \/ (e.op = "del" /\ e.tok = "<" /\ (e.next = ">" \/ Same(k, LAMBDA x : x.op = "del" /\ x.tok = ">")))
  \/ (e.op = "del" /\ e.tok = ">" /\ Same(k, LAMBDA x : x.op = "del" /\ x.tok = "<"))
  \/ (e.op = "del" /\ e.tok = "where" /\ (e.next \in {"{", ";", "="} \/ e.after \in {"{", ";", "="}))
(* block-versus-expression bodies of match arms and closures *)
BodyBlock(k) == LET e == E[k] IN
  \/ (e.tok = "{" /\ (ArrowBefore(e) \/ e.prev = "|" \/ e.prev = "{"))
  \/ (e.tok = "}")                                  \* balanced by the counting clause
(* a leading pipe in a match arm *)
LeadingPipe(e) == e.op = "del" /\ e.tok = "|" /\ e.prev \in {"{", ",", "}"}
(* explicit extern ABI *)
ExternAbi(e) == e.op = "ins" /\ e.tok = "\"C\"" /\ e.prev = "extern"
(* the spelling of restricted visibility: pub(in self) = pub(self), pub(in ::a) = pub(in a) *)
VisSpelling(e) ==
  \/ (e.op = "del" /\ e.tok = "in" /\ e.prev = "(" /\ e.prev2 = "pub" /\ e.next \in {"self", "super", "crate"})
  \/ (e.op = "del" /\ e.tok = ":" /\ (e.prev = "in" \/ (e.prev = "(" /\ e.prev2 = "pub")))
(* the delimiter of vec!-like macro calls and of macro_rules! arm bodies *)
MacroDelim(k) == LET e == E[k] IN
  /\ e.tok \in Openers \cup {")", "]", "}"}
  /\ \/ (e.tok \in Openers /\ Same(k, LAMBDA x : x.op # e.op /\ x.tok \in Openers)
           (* the swapped pair stands right after `name!` or after the `=>` of a macro arm *)
           /\ (e.prev = "!" \/ ArrowBefore(e)
               \/ Same(k, LAMBDA x : x.prev = "!" \/ ArrowBefore(x))))
     \/ (e.tok \in {")", "]", "}"} /\ Same(k, LAMBDA x : x.op # e.op /\ x.tok \in {")", "]", "}"}))
(* a `;` after a brace-delimited macro_rules arm / statement macro *)
MacroSemi(e) == e.tok = ";" /\ e.prev = "}" /\ e.after \in {"}", ""}

(* imports inside blocks (statement position) are rewritten like top-level ones: C10's business *)
ImportRewrite(e) == e.head = "use"

Explained(k) ==
  LET e == E[k] IN
  \/ ImportRewrite(e)
  \/ TrailingComma(e) \/ RedundantSemi(e) \/ DivergingSemi(e) \/ NestedParen(k)
  \/ RequiredParen(k) \/ EmptyList(k) \/ BodyBlock(k) \/ LeadingPipe(e) \/ ExternAbi(e)
  \/ VisSpelling(e) \/ MacroDelim(k) \/ MacroSemi(e)

Count(op, t) == Cardinality({k \in 1 .. Len(E) : E[k].op = op /\ E[k].tok = t})
(* the alignment may pair an inserted closer with a deleted one, so only the NET change of  *)
(* each delimiter kind can be required to agree between openers and closers                *)
Balanced == \A t \in Openers :
              Count("ins", t) + Count("del", Close(t)) = Count("ins", Close(t)) + Count("del", t)
Unexplained == {k \in 1 .. Len(E) : ~Explained(k)}

OutputParses == R.parsed_in => R.parsed_out
OnlyNormalisations == (R.parsed_in /\ R.parsed_out) => Unexplained = {}
DelimitersBalance == (R.parsed_in /\ R.parsed_out) => Balanced

ReportInv ==
  LET F == {n \in {"OutputParses", "OnlyNormalisations", "DelimitersBalance"} :
              ~(CASE n = "OutputParses" -> OutputParses
                  [] n = "OnlyNormalisations" -> OnlyNormalisations
                  [] n = "DelimitersBalance" -> DelimitersBalance)}
  IN F = {} \/ PrintT(ToJson([tag |-> "FAIL", l |-> l, fails |-> F,
                               first |-> IF Unexplained = {} THEN 0
                                         ELSE CHOOSE k \in Unexplained : \A j \in Unexplained : k <= j]))
=============================================================================
