SPECIFICATION Spec
CONSTANTS
  MaxDepth = 3
  MaxDecl = 2
INVARIANTS Scenarios ScopingSound NoSpuriousSkip
CHECK_DEADLOCK FALSE
