------------------------------ MODULE FileLines -----------------------------
(* TLC: every sequence of <= MaxRanges ranges with endpoints in 0..MaxLine. *)
EXTENDS FileLinesCore, TLC, Json
CONSTANTS MaxRanges, MaxLine

Rs == {<<a, b>> : a \in 0 .. MaxLine, b \in 0 .. MaxLine}
RECURSIVE SeqsUpTo(_, _)
SeqsUpTo(S, n) == IF n = 0 THEN {<<>>} ELSE
                    LET P == SeqsUpTo(S, n - 1) IN
                    P \cup {Append(s, x) : s \in {q \in P : Len(q) = n - 1}, x \in S}
VARIABLES sel, done
Init == sel \in SeqsUpTo(Rs, MaxRanges) /\ done = FALSE
Next == ~done /\ done' = TRUE /\ UNCHANGED sel
Spec == Init /\ [][Next]_<<sel, done>>

N == Normalize(sel)
U == LinesOf(sel)
(* the normal form denotes the union *)
DenotesUnion == LinesOf(N) = U
(* overlapping or adjacent ranges behave as their union: queries agree with the set *)
LineQuery == \A n \in 0 .. MaxLine + 1 : ContainsLine(N, n) <=> n \in U
RangeQuery == \A lo, hi \in 0 .. MaxLine :
                 lo <= hi => (ContainsRange(N, lo, hi) <=> (lo .. hi) \subseteq U)
IntersectQuery == \A lo, hi \in 0 .. MaxLine :
                 lo <= hi => (Intersects(N, lo, hi) <=> (lo .. hi) \cap U # {})
NoEmptySel == U = {} => \A n \in 0 .. MaxLine + 1 : ~ContainsLine(N, n)
Emit == PrintT(ToJson([tag |-> "REPLAY", sel |-> sel, norm |-> N]))
=============================================================================
