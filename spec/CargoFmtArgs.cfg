SPECIFICATION Spec
INVARIANTS ReportInv
