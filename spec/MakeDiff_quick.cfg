SPECIFICATION Spec
CONSTANTS
  MaxLen = 6
  Contexts = {0, 1, 2, 3}
INVARIANTS TypeOK Correct Emit
