SPECIFICATION Spec
INVARIANTS ReportInv
