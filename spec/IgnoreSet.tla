------------------------------- MODULE IgnoreSet ------------------------------
(***************************************************************************)
(* The `ignore` option (src/ignore_path.rs, src/config/options.rs          *)
(* IgnoreList): a list of gitignore-style patterns that are RELATIVE TO    *)
(* THE DIRECTORY OF THE CONFIGURATION FILE that holds them -- whichever    *)
(* file that is: found next to the source or above it, given with          *)
(* --config-path, or the fallback in the home / user-configuration         *)
(* directory.  Evaluated by TLC on runs of the real binary (C13 names      *)
(* `matched by ignore` as an exclusion; C16 asks that no configuration     *)
(* makes rustfmt die).                                                     *)
(*                                                                         *)
(* Record                                                                  *)
(*   pats  : Seq([neg, anch, dir : BOOLEAN, segs : Seq(STRING)])           *)
(*           `!p` negates; a leading or inner slash anchors the pattern at  *)
(*           the configuration directory; a trailing slash restricts it to  *)
(*           directories; segs are literal names, "*", "*.rs" or "**"       *)
(*   path  : the file's path relative to the configuration directory, as a  *)
(*           sequence of names (meaningless when ~under)                    *)
(*   under : the file lies inside the configuration directory               *)
(*   rs    : the names that end in ".rs"  (a lexical fact, given)           *)
(*   ignored : observed -- the file was left out of the run                 *)
(*   died  : observed -- the run ended with a status other than 0 / 1       *)
(***************************************************************************)
EXTENDS Naturals, Integers, Sequences, FiniteSets, TLC, Json, IOUtils
Rec == ndJsonDeserialize(IOEnv.TRACE)
VARIABLE l
Init == l = 1
Next == l < Len(Rec) /\ l' = l + 1
Spec == Init /\ [][Next]_l
R == Rec[l]

RsNames == {R.rs[i] : i \in 1 .. Len(R.rs)}
SegMatch(ps, s) == ps = "*" \/ (ps = "*.rs" /\ s \in RsNames) \/ ps = s

(* `*` never crosses a separator, `**` spans any number of names *)
RECURSIVE MatchSegs(_, _)
MatchSegs(ps, ss) ==
  IF ps = <<>> THEN ss = <<>>
  ELSE IF Head(ps) = "**" THEN MatchSegs(Tail(ps), ss) \/ (ss # <<>> /\ MatchSegs(ps, Tail(ss)))
  ELSE ss # <<>> /\ SegMatch(Head(ps), Head(ss)) /\ MatchSegs(Tail(ps), Tail(ss))

(* a pattern without a slash matches at any depth; `x/**` means everything INSIDE x *)
Full(p) ==
  LET a == IF p.anch THEN p.segs ELSE <<"**">> \o p.segs
  IN IF a[Len(a)] = "**" THEN a \o <<"*">> ELSE a

(* candidate k = the first k names of the path: k = Len(path) is the file itself,
   every shorter prefix one of its parent directories *)
PatMatches(p, k) == (p.dir => k < Len(R.path)) /\ MatchSegs(Full(p), SubSeq(R.path, 1, k))
Hits(k) == {i \in 1 .. Len(R.pats) : PatMatches(R.pats[i], k)}
Cands == {k \in 1 .. Len(R.path) : Hits(k) # {}}
Max(S) == CHOOSE x \in S : \A y \in S : y <= x

(* the file itself is looked at first, then its parents; at the first candidate that any
   pattern matches, the LAST such pattern decides *)
Decide == IF Cands = {} THEN FALSE ELSE ~R.pats[Max(Hits(Max(Cands)))].neg

(* a file outside the configuration directory matches no pattern *)
IgnoreSound == ~R.died => (R.ignored <=> (R.under /\ Decide))
(* and no pattern list, wherever its file lives, makes the run die *)
NoDeath == ~R.died

ReportInv ==
  LET F == {n \in {"IgnoreSound", "NoDeath"} :
              ~(CASE n = "IgnoreSound" -> IgnoreSound [] n = "NoDeath" -> NoDeath)}
  IN F = {} \/ PrintT(ToJson([tag |-> "FAIL", l |-> l, fails |-> F, want |-> (R.under /\ Decide)]))
=============================================================================
