------------------------------- MODULE LawsObs ------------------------------
(***************************************************************************)
(* Laws over the formatter seen as an uninterpreted function               *)
(*      Fmt : Build x Source x Config -> Text                              *)
(* evaluated by TLC on the observed function graph (hashes of texts).      *)
(* One record per universe point:                                          *)
(*  {ok1, ok2, h0, h1, h2,            -- src, Fmt(src), Fmt(Fmt(src))       *)
(*   hr, okr,                         -- the frozen reference build's text  *)
(*   he:[h..], oke:[b..], released:b, -- same source under style editions   *)
(*                                       2015, 2018, 2021                   *)
(*   again                            -- h1 of a second, independent run}   *)
(* Fields that a check does not use are filled with the neutral value.      *)
(***************************************************************************)
EXTENDS Naturals, Sequences, FiniteSets, TLC, Json, IOUtils
Rec == ndJsonDeserialize(IOEnv.TRACE)
VARIABLE l
Init == l = 1
Next == l < Len(Rec) /\ l' = l + 1
Spec == Init /\ [][Next]_l
R == Rec[l]

(* C02: Fmt(Fmt(x)) = Fmt(x) *)
Idempotent == (R.ok1 /\ R.ok2) => R.h2 = R.h1
(* the second run must not start failing on rustfmt's own output *)
OutputAccepted == R.ok1 => R.ok2
(* C15: the same build, source and configuration give the same bytes *)
Functional == R.ok1 => R.again = R.h1
(* C09: the working tree agrees with the frozen reference on released style editions *)
ReferenceAgreement == (R.released /\ R.okr) => (R.ok1 /\ R.h1 = R.hr)
(* C09: style editions 2015, 2018 and 2021 produce identical text *)
EditionFreeze == \A i, j \in 1 .. Len(R.he) : (R.oke[i] /\ R.oke[j]) => R.he[i] = R.he[j]

ReportInv ==
  LET F == {n \in {"Idempotent", "OutputAccepted", "Functional", "ReferenceAgreement",
                   "EditionFreeze"} :
              ~(CASE n = "Idempotent" -> Idempotent [] n = "OutputAccepted" -> OutputAccepted
                  [] n = "Functional" -> Functional
                  [] n = "ReferenceAgreement" -> ReferenceAgreement
                  [] n = "EditionFreeze" -> EditionFreeze)}
  IN F = {} \/ PrintT(ToJson([tag |-> "FAIL", l |-> l, fails |-> F]))
=============================================================================
