SPECIFICATION Spec
CONSTANTS
  MaxDepth = 3
  MaxDecl = 1
INVARIANTS Scenarios ScopingSound NoSpuriousSkip
CHECK_DEADLOCK FALSE
