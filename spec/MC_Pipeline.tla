---------------------------- MODULE MC_Pipeline -----------------------------
EXTENDS Pipeline
Fl(c, b, l) == [check |-> c, backup |-> b, list |-> l, nl |-> "auto"]
FlU(c, b, l) == [check |-> c, backup |-> b, list |-> l, nl |-> "unix"]
MCCombos == {<<"files", Fl(FALSE, FALSE, FALSE)>>, <<"files", Fl(FALSE, TRUE, FALSE)>>,
             <<"files", Fl(FALSE, FALSE, TRUE)>>, <<"files", Fl(TRUE, FALSE, FALSE)>>,
             <<"files", Fl(TRUE, FALSE, TRUE)>>, <<"stdout", Fl(FALSE, FALSE, FALSE)>>,
             <<"json", Fl(FALSE, FALSE, FALSE)>>, <<"checkstyle", Fl(FALSE, FALSE, FALSE)>>,
             <<"modified", Fl(FALSE, FALSE, FALSE)>>,
             <<"files", FlU(FALSE, FALSE, FALSE)>>, <<"files", FlU(TRUE, FALSE, FALSE)>>,
             <<"files", FlU(TRUE, FALSE, TRUE)>>, <<"json", FlU(FALSE, FALSE, FALSE)>>,
             <<"stdout", FlU(FALSE, FALSE, FALSE)>>}
MCCombosSmall == {<<"files", Fl(FALSE, FALSE, FALSE)>>, <<"files", Fl(FALSE, TRUE, FALSE)>>,
                  <<"files", Fl(TRUE, FALSE, FALSE)>>, <<"json", Fl(FALSE, FALSE, FALSE)>>}
=============================================================================
