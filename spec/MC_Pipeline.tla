---------------------------- MODULE MC_Pipeline -----------------------------
EXTENDS Pipeline
Fl(c, b, l) == [check |-> c, backup |-> b, list |-> l, nl |-> "auto", ex |-> FALSE]
\* `--emit files` spelled out on the command line
FlE(b, l) == [check |-> FALSE, backup |-> b, list |-> l, nl |-> "auto", ex |-> TRUE]
FlU(c, b, l) == [check |-> c, backup |-> b, list |-> l, nl |-> "unix", ex |-> FALSE]
MCCombos == {<<"files", Fl(FALSE, FALSE, FALSE)>>, <<"files", Fl(FALSE, TRUE, FALSE)>>,
             <<"files", Fl(FALSE, FALSE, TRUE)>>, <<"files", Fl(TRUE, FALSE, FALSE)>>,
             <<"files", Fl(TRUE, FALSE, TRUE)>>, <<"stdout", Fl(FALSE, FALSE, FALSE)>>,
             <<"json", Fl(FALSE, FALSE, FALSE)>>, <<"checkstyle", Fl(FALSE, FALSE, FALSE)>>,
             <<"modified", Fl(FALSE, FALSE, FALSE)>>,
             <<"files", FlU(FALSE, FALSE, FALSE)>>, <<"files", FlU(TRUE, FALSE, FALSE)>>,
             <<"files", FlU(TRUE, FALSE, TRUE)>>, <<"json", FlU(FALSE, FALSE, FALSE)>>,
             <<"stdout", FlU(FALSE, FALSE, FALSE)>>,
             \* --backup (make_backup) next to every mode that must not write
             <<"files", Fl(TRUE, TRUE, FALSE)>>, <<"files", Fl(TRUE, TRUE, TRUE)>>,
             <<"stdout", Fl(FALSE, TRUE, FALSE)>>, <<"json", Fl(FALSE, TRUE, FALSE)>>,
             <<"checkstyle", Fl(FALSE, TRUE, FALSE)>>, <<"modified", Fl(FALSE, TRUE, FALSE)>>,
             <<"files", Fl(FALSE, TRUE, TRUE)>>,
             <<"files", FlE(FALSE, FALSE)>>, <<"files", FlE(TRUE, FALSE)>>, <<"files", FlE(TRUE, TRUE)>>}
MCCombosSmall == {<<"files", Fl(FALSE, FALSE, FALSE)>>, <<"files", Fl(FALSE, TRUE, FALSE)>>,
                  <<"files", Fl(TRUE, FALSE, FALSE)>>, <<"json", Fl(FALSE, FALSE, FALSE)>>}
=============================================================================
