---------------------------- MODULE MC_Pipeline -----------------------------
EXTENDS Pipeline
Fl(c, b, l) == [check |-> c, backup |-> b, list |-> l]
MCCombos == {<<"files", Fl(FALSE, FALSE, FALSE)>>, <<"files", Fl(FALSE, TRUE, FALSE)>>,
             <<"files", Fl(FALSE, FALSE, TRUE)>>, <<"files", Fl(TRUE, FALSE, FALSE)>>,
             <<"files", Fl(TRUE, FALSE, TRUE)>>, <<"stdout", Fl(FALSE, FALSE, FALSE)>>,
             <<"json", Fl(FALSE, FALSE, FALSE)>>, <<"checkstyle", Fl(FALSE, FALSE, FALSE)>>,
             <<"modified", Fl(FALSE, FALSE, FALSE)>>}
MCCombosSmall == {<<"files", Fl(FALSE, FALSE, FALSE)>>, <<"files", Fl(FALSE, TRUE, FALSE)>>,
                  <<"files", Fl(TRUE, FALSE, FALSE)>>, <<"json", Fl(FALSE, FALSE, FALSE)>>}
=============================================================================
