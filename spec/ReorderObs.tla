----------------------------- MODULE ReorderObs -----------------------------
(***************************************************************************)
(* C11: reordering is a deterministic, order-insensitive permutation --    *)
(* evaluated by TLC on runs of the real formatter.                         *)
(* Record (one base group formatted in several input orders):              *)
(*  {n, tie:[class id per element], group:[group index per element],       *)
(*   perms:[{inp:[ids], out:[ids], attach_ok:b, bounds_ok:b}]}             *)
(*  optional texts:[id of the output text per arrangement of one list]    *)
(*  ids are 1..n; `tie` gives equal numbers to elements that differ only   *)
(*  in their alias (ranked equal); `group` numbers the run (between        *)
(*  boundaries) an element belongs to.                                     *)
(***************************************************************************)
EXTENDS Naturals, Sequences, FiniteSets, TLC, Json, IOUtils
Rec == ndJsonDeserialize(IOEnv.TRACE)
VARIABLE l
Init == l = 1
Next == l < Len(Rec) /\ l' = l + 1
Spec == Init /\ [][Next]_l
R == Rec[l]
P == R.perms
AsSet(s) == {s[j] : j \in 1 .. Len(s)}
Pos(s, x) == CHOOSE j \in 1 .. Len(s) : s[j] = x

(* exactly the input's elements, each once, with its attributes and comments *)
SameElements ==
  \A k \in 1 .. Len(P) :
     /\ Len(P[k].out) = R.n /\ AsSet(P[k].out) = 1 .. R.n /\ AsSet(P[k].inp) = 1 .. R.n
     /\ P[k].attach_ok
(* no element crosses a group boundary; the boundaries themselves stay put *)
NoCross ==
  \A k \in 1 .. Len(P) : P[k].bounds_ok /\
     \A i, j \in 1 .. R.n :
        (R.group[P[k].out[i]] < R.group[P[k].out[j]]) => i < j
(* the order is a function of the elements alone: every permutation gives the same
   order, up to the relative order of elements ranked equal *)
Class(s) == [j \in 1 .. Len(s) |-> R.tie[s[j]]]
OrderIsFunction == \A k \in 1 .. Len(P) : Class(P[k].out) = Class(P[1].out)
(* elements ranked equal keep their relative order (a stable sort) *)
TieStable ==
  \A k \in 1 .. Len(P) : \A x, y \in 1 .. R.n :
     (x # y /\ R.tie[x] = R.tie[y] /\ R.group[x] = R.group[y]
        /\ Pos(P[k].inp, x) < Pos(P[k].inp, y))
     => Pos(P[k].out, x) < Pos(P[k].out, y)

(* import lists (nested lists included) written in every arrangement: one text.  `texts`
   numbers the distinct outputs of the arrangements of one base list *)
OneText == ("texts" \in DOMAIN R) => \A k \in 1 .. Len(R.texts) : R.texts[k] = R.texts[1]

ReportInv ==
  LET F == {n \in {"SameElements", "NoCross", "OrderIsFunction", "TieStable", "OneText"} :
              ~(CASE n = "SameElements" -> SameElements [] n = "NoCross" -> NoCross
                  [] n = "OrderIsFunction" -> OrderIsFunction [] n = "TieStable" -> TieStable
                  [] n = "OneText" -> OneText)}
  IN F = {} \/ PrintT(ToJson([tag |-> "FAIL", l |-> l, fails |-> F]))
=============================================================================
