SPECIFICATION Spec
INVARIANTS ReportInv
