SPECIFICATION OSpec
CONSTANTS
  MaxRoots = 3
  MaxFiles = 3
  FileFaults = {"E", "P", "N", "M", "A", "S", "W", "C", "D", "R", "Z", "T", "G", "H", "K"}
  RootFaults = {"badtoml", "vermismatch", "missing", "dir"}
  Combos = {}
  GenMode = "all"
  LocalCfgAborts = FALSE
INVARIANTS ReportInv
