SPECIFICATION Spec
INVARIANTS ReportInv
