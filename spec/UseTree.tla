------------------------------ MODULE UseTree -------------------------------
(***************************************************************************)
(* C10 (kind A): the import algebra of src/imports.rs transcribed --       *)
(* UseTree::normalize, flatten, nest_trailing_self, share_prefix, merge,   *)
(* merge_rest, merge_use_trees_inner, normalize_use_trees_with_granularity,*)
(* flatten_use_trees and the orderings they sort with -- next to the       *)
(* denotation the property speaks about: Leaves, the set of imported paths *)
(* with their aliases and visibility.                                      *)
(*                                                                         *)
(* A path is a sequence of segments; a segment is                          *)
(*   [k |-> "id" | "self" | "super" | "crate" | "glob" | "list",           *)
(*    n |-> name (a number; 0 unless k = "id"), a |-> alias (0 = none),    *)
(*    l |-> the paths of a list (<<>> unless k = "list")]                  *)
(* A top-level item is [vis |-> .., path |-> ..]; nested trees have no     *)
(* visibility (as in the code: visibility / attrs are None below the top). *)
(* Comments and attributes are absent (items that carry them are left      *)
(* alone by the code before any of this runs).                             *)
(*                                                                         *)
(* TLC enumerates every list of NItems small trees (Trees) under every     *)
(* granularity, evaluates the transcription, checks LeavesPreserved on it  *)
(* and prints one scenario per state: tools/rfv/c10.py renders it, runs    *)
(* the real formatter and compares (real vs Leaves: violation; real vs     *)
(* transcription: drift).                                                  *)
(***************************************************************************)
EXTENDS Naturals, Sequences, FiniteSets, TLC, Json
CONSTANTS NNames, NAlias, NItems, Grans, Viss, MaxList

Seg(k, n, a, l) == [k |-> k, n |-> n, a |-> a, l |-> l]
Id(n, a) == Seg("id", n, a, <<>>)
Slf(a) == Seg("self", 0, a, <<>>)
GlobS == Seg("glob", 0, 0, <<>>)
ListS(ps) == Seg("list", 0, 0, ps)
Last(s) == s[Len(s)]
Front(s) == SubSeq(s, 1, Len(s) - 1)
From(s, i) == SubSeq(s, i, Len(s))          \* 1-based: the suffix that starts at index i
Aliasable(s) == s.k \in {"id", "self", "super", "crate"}
RemoveAlias(s) == IF Aliasable(s) THEN [s EXCEPT !.a = 0] ELSE s
EqExceptAlias(s, t) ==
  CASE s.k = "id" /\ t.k = "id" -> s.n = t.n
    [] s.k = t.k /\ s.k \in {"self", "super", "crate", "glob"} -> TRUE
    [] s.k = "list" /\ t.k = "list" -> s.l = t.l
    [] OTHER -> FALSE

(* ---- Ord for UseSegment / UseTree (lower-case one-letter names: the version sort and  *)
(*      the legacy comparison coincide) ------------------------------------------------ *)
NatCmp(a, b) == IF a < b THEN "L" ELSE IF a > b THEN "G" ELSE "E"
Rank(s) == CASE s.k = "self" -> 1 [] s.k = "super" -> 2 [] s.k = "crate" -> 3 [] s.k = "id" -> 4
             [] s.k = "glob" -> 5 [] OTHER -> 6
Min(a, b) == IF a < b THEN a ELSE b
RECURSIVE SegCmp(_, _), PathCmp(_, _), PathCmpFrom(_, _, _), ListCmpFrom(_, _, _)
SegCmp(s, t) ==
  IF s.k = t.k THEN
    CASE s.k \in {"self", "super", "crate"} -> NatCmp(s.a, t.a)
      [] s.k = "glob" -> "E"
      [] s.k = "id" -> IF s.n # t.n THEN NatCmp(s.n, t.n) ELSE NatCmp(s.a, t.a)
      [] OTHER -> ListCmpFrom(s.l, t.l, 1)
  ELSE NatCmp(Rank(s), Rank(t))
ListCmpFrom(a, b, i) ==
  IF i > Min(Len(a), Len(b)) THEN NatCmp(Len(a), Len(b))
  ELSE LET o == PathCmp(a[i], b[i]) IN IF o # "E" THEN o ELSE ListCmpFrom(a, b, i + 1)
PathCmpFrom(p, q, i) ==
  IF i > Min(Len(p), Len(q)) THEN NatCmp(Len(p), Len(q))
  ELSE LET o == SegCmp(p[i], q[i]) IN
       IF o # "E" /\ SegCmp(RemoveAlias(p[i]), RemoveAlias(q[i])) # "E" THEN o
       ELSE PathCmpFrom(p, q, i + 1)
PathCmp(p, q) == PathCmpFrom(p, q, 1)

(* a stable sort *)
RECURSIVE InsertSorted(_, _), SortPaths(_)
InsertSorted(x, s) ==
  IF s = <<>> THEN <<x>>
  ELSE IF PathCmp(x, Last(s)) = "L" THEN Append(InsertSorted(x, Front(s)), Last(s))
       ELSE Append(s, x)
SortPaths(s) == IF s = <<>> THEN <<>> ELSE InsertSorted(Last(s), SortPaths(Front(s)))

(* ---- UseTree::normalize --------------------------------------------------------------- *)
IsSelfOnly(p) == Len(p) = 1 /\ p[1].k = "self"     \* displays as "self" (Display drops the alias)
RECURSIVE Normalize(_, _), NormalizeAll(_)
NormalizeAll(ps) == [i \in 1 .. Len(ps) |-> Normalize(ps[i], FALSE)]
Normalize(path, top) ==
  LET last == Last(path)
      rest == Front(path)
  IN
  IF last.k = "list" /\ last.l = <<>> THEN <<>>                          \* foo::{}
  ELSE IF last.k = "self" /\ last.a = 0 /\ rest = <<>> /\ top THEN <<>>  \* `use self;`
  ELSE IF last.k = "self" /\ last.a = 0 /\ rest # <<>> THEN rest         \* foo::self -> foo
  ELSE IF last.k = "self" /\ last.a # 0 /\ rest # <<>> /\ Last(rest).k = "id" /\ Last(rest).a = 0
       THEN Append(Front(rest), [Last(rest) EXCEPT !.a = last.a])        \* foo::self as b -> foo as b
  ELSE IF last.k = "list" /\ Len(last.l) = 1 /\ ~IsSelfOnly(last.l[1])
       THEN (IF rest \o last.l[1] = <<>> THEN <<>> ELSE Normalize(rest \o last.l[1], top))
  ELSE IF last.k = "list" THEN Append(rest, ListS(SortPaths(NormalizeAll(last.l))))
  ELSE path

(* ---- flatten / nest_trailing_self ------------------------------------------------------- *)
RECURSIVE Flatten(_), FlattenEach(_, _, _)
FlattenEach(prefix, ps, i) ==
  IF i > Len(ps) THEN <<>>
  ELSE LET fs == Flatten(ps[i]) IN
       [j \in 1 .. Len(fs) |-> prefix \o fs[j]] \o FlattenEach(prefix, ps, i + 1)
Flatten(path) ==
  IF path = <<>> THEN <<path>>
  ELSE LET last == Last(path) IN
       IF last.k # "list" THEN <<path>>
       ELSE IF Len(last.l) = 1 /\ Len(last.l[1]) = 1 /\ last.l[1][1].k = "self" THEN <<path>>
       ELSE FlattenEach(Front(path), last.l, 1)
NestTrailingSelf(path) ==
  IF path # <<>> /\ Last(path).k = "self" THEN Append(Front(path), ListS(<< <<Last(path)>> >>))
  ELSE path

(* ---- share_prefix / merge / merge_rest / merge_use_trees_inner -------------------------- *)
SharePrefix(p, q, sameVis, by) ==
  p # <<>> /\ q # <<>> /\ sameVis /\
  CASE by = "Crate" -> p[1] = q[1]
    [] by = "Module" -> Front(p) = Front(q)
    [] OTHER -> TRUE
RECURSIVE CommonPrefix(_, _, _)
CommonPrefix(p, q, i) ==          \* number of leading segments merge() keeps
  IF i > Min(Len(p), Len(q)) THEN i - 1
  ELSE IF (i = 1 /\ EqExceptAlias(p[i], q[i])) \/ p[i] = q[i] THEN CommonPrefix(p, q, i + 1)
       ELSE i - 1
RECURSIVE Similarity(_, _, _)
Similarity(p, q, i) ==
  IF i > Min(Len(p), Len(q)) \/ ~EqExceptAlias(p[i], q[i]) THEN i - 1 ELSE Similarity(p, q, i + 1)

RECURSIVE Merge(_, _, _), MergeRest(_, _, _, _), MergeInner(_, _, _)
(* first index with the minimal / last index with the maximal key among idx (a set of indices) *)
FirstMin(idx, key(_)) == CHOOSE i \in idx : \A j \in idx : key(i) < key(j) \/ (key(i) = key(j) /\ i <= j)
LastMax(idx, key(_)) == CHOOSE i \in idx : \A j \in idx : key(i) > key(j) \/ (key(i) = key(j) /\ i >= j)
MergeInner(trees, t, by) ==
  LET sim == {i \in 1 .. Len(trees) : SharePrefix(trees[i], t, TRUE, by)}
      plen(i) == Len(trees[i])
      simil(i) == Similarity(trees[i], t, 1)
      pushed == SortPaths(Append(trees, t))
  IN
  IF Len(t) = 1 /\ by = "Crate" THEN
       IF sim # {} /\ plen(FirstMin(sim, plen)) = 1 THEN trees ELSE pushed
  ELSE IF by = "One" THEN
       IF sim # {} /\ simil(LastMax(sim, simil)) > 0
       THEN LET i == LastMax(sim, simil) IN [trees EXCEPT ![i] = Merge(trees[i], t, by)]
       ELSE pushed
  ELSE IF sim # {} /\ plen(LastMax(sim, plen)) > 1
       THEN LET i == LastMax(sim, plen) IN [trees EXCEPT ![i] = Merge(trees[i], t, by)]
       ELSE pushed
(* merge_rest: <<>> stands for None *)
MergeRest(a, b, len, by) ==
  LET bottom(n) == SubSeq(b, 1, n) \o <<ListS(SortPaths(<<From(a, n + 1), From(b, n + 1)>>))>> IN
  IF Len(a) = len /\ Len(b) = len THEN <<>>
  ELSE IF Len(a) # len /\ Len(b) # len THEN
       IF a[len + 1].k = "list"
       THEN SubSeq(b, 1, len) \o <<ListS(MergeInner(a[len + 1].l, From(b, len + 1), by))>>
       ELSE bottom(len)
  ELSE IF len = 1 THEN
       LET common == IF Len(a) = len THEN a[1] ELSE b[1]
           rest == IF Len(a) = len THEN From(b, 2) ELSE From(a, 2)
           self == << <<Slf(IF Aliasable(common) THEN common.a ELSE 0)>> >>
           lst == IF Len(rest) = 1 /\ rest[1].k = "list" THEN self \o rest[1].l ELSE Append(self, rest)
       IN <<b[1], ListS(lst)>>
  ELSE bottom(len - 1)
Merge(p, q, by) ==
  LET n == CommonPrefix(p, q, 1)
      r == MergeRest(p, q, n, by)
  IN IF r = <<>> THEN p ELSE r

(* ---- normalize_use_trees_with_granularity ---------------------------------------------- *)
(* items: sequence of [vis, path] *)
SameVis(x, y) == x.vis = y.vis
RECURSIVE AddFlattened(_, _, _, _), AddItems(_, _, _, _)
FirstSharing(res, it, by) ==
  LET c == {i \in 1 .. Len(res) : SharePrefix(res[i].path, it.path, SameVis(res[i], it), by)}
  IN IF c = {} THEN 0 ELSE CHOOSE i \in c : \A j \in c : i <= j
AddFlattened(res, vis, fs, j) ==
  LET by == fs.by IN
  IF j > Len(fs.ps) THEN res
  ELSE LET it == [vis |-> vis, path |-> fs.ps[j]]
           i == FirstSharing(res, it, by)
       IN IF i # 0
          THEN AddFlattened([res EXCEPT ![i] = [@ EXCEPT !.path = Merge(@, it.path, by)]], vis, fs, j + 1)
          ELSE AddFlattened(Append(res, IF by = "Module" THEN [it EXCEPT !.path = NestTrailingSelf(@)] ELSE it),
                            vis, fs, j + 1)
AddItems(res, items, k, by) ==
  IF k > Len(items) THEN res
  ELSE AddItems(AddFlattened(res, items[k].vis, [ps |-> Flatten(items[k].path), by |-> by], 1), items, k + 1, by)
RECURSIVE Unique(_, _)
Unique(its, acc) ==         \* Itertools::unique with Eq / Hash of UseTree: the PATH only
  IF its = <<>> THEN acc
  ELSE IF \E i \in 1 .. Len(acc) : acc[i].path = its[1].path THEN Unique(Tail(its), acc)
       ELSE Unique(Tail(its), Append(acc, its[1]))
RECURSIVE FlatItems(_, _)
FlatItems(items, k) ==
  IF k > Len(items) THEN <<>>
  ELSE LET fs == Flatten(items[k].path) IN
       [j \in 1 .. Len(fs) |-> [vis |-> items[k].vis, path |-> NestTrailingSelf(fs[j])]] \o FlatItems(items, k + 1)
WithGranularity(items, g) ==
  CASE g = "Preserve" -> items
    [] g = "Item" -> Unique(FlatItems(items, 1), <<>>)
    [] OTHER -> AddItems(<<>>, items, 1, g)
(* the pipeline of reorder.rs: from_ast_with_normalization, then the granularity step; items whose
   path became empty are dropped when they are written *)
Pipeline(items, g) ==
  LET norm == [i \in 1 .. Len(items) |-> [items[i] EXCEPT !.path = Normalize(@, TRUE)]]
      kept == SelectSeq(norm, LAMBDA it : it.path # <<>>)
  IN SelectSeq(WithGranularity(kept, g), LAMBDA it : it.path # <<>>)

(* ---- the denotation ----------------------------------------------------------------------- *)
RECURSIVE Leaves(_, _)
Leaves(path, prefix) ==
  IF path = <<>> THEN {}
  ELSE LET last == Last(path)
           pre == prefix \o Front(path)
       IN CASE last.k = "list" -> UNION {Leaves(last.l[i], pre) : i \in 1 .. Len(last.l)}
            [] last.k = "self" -> IF pre = <<>> THEN {} ELSE {<<[i \in 1 .. Len(pre) |-> RemoveAlias(pre[i])], last.a>>}
            [] last.k = "glob" -> {<<pre, 99>>}                       \* 99 marks a glob
            [] OTHER -> {<<Append(pre, RemoveAlias(last)), last.a>>}
ItemLeaves(items) == UNION {{<<items[i].vis, lf>> : lf \in Leaves(items[i].path, <<>>)} : i \in 1 .. Len(items)}

(* ---- the universe --------------------------------------------------------------------------- *)
Ids == {Id(n, 0) : n \in 1 .. NNames}
EndSegs == {Id(n, a) : n \in 1 .. NNames, a \in 0 .. NAlias} \cup {GlobS}
InList == {<<e>> : e \in EndSegs \cup {Slf(a) : a \in 0 .. NAlias}}
          \cup {<<i, e>> : i \in Ids, e \in EndSegs}
Lists == UNION {[1 .. k -> InList] : k \in 0 .. MaxList}
Trees == {<<e>> : e \in EndSegs \ {GlobS}} \cup {<<i, e>> : i \in Ids, e \in EndSegs}
         \cup {<<i, ListS(l)>> : i \in Ids, l \in Lists}
         \cup {<<i, j, e>> : i \in Ids, j \in Ids, e \in EndSegs}

VARIABLES items, gran
vars == <<items, gran>>
Init == items \in [1 .. NItems -> [vis : Viss, path : Trees]] /\ gran \in Grans
Next == UNCHANGED vars
Spec == Init /\ [][Next]_vars

(* a tree that can be written as Rust: only the last segment of a path carries an alias, a list
   or a glob; `self` is the last segment too *)
RECURSIVE WellFormed(_)
WellFormed(path) ==
  /\ \A i \in 1 .. Len(path) - 1 : path[i].k = "id" /\ path[i].a = 0
  /\ path # <<>> => (Last(path).k = "list" => \A j \in 1 .. Len(Last(path).l) : WellFormed(Last(path).l[j]))
Out == Pipeline(items, gran)
OutWellFormed == \A i \in 1 .. Len(Out) : WellFormed(Out[i].path)
LeavesPreserved == ItemLeaves(Out) = ItemLeaves(items)
Scenario ==
  PrintT(ToJson([tag |-> "UT", items |-> items, gran |-> gran, out |-> Out, ok |-> LeavesPreserved,
                 wf |-> OutWellFormed]))
=============================================================================
