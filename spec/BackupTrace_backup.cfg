SPECIFICATION TSpec
CONSTANTS
  NFiles = 3
  Protocol = "backup"
  FaultOps = TRUE
  Pre = {"absent", "stale"}
INVARIANTS OriginalRecoverable NeverPartialTarget
POSTCONDITION Accepted
