SPECIFICATION TSpec
CONSTANTS
  NFiles = 3
  Protocol = "backup"
  FaultOps = TRUE
INVARIANTS OriginalRecoverable NeverPartialTarget
POSTCONDITION Accepted
