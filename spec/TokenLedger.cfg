SPECIFICATION Spec
INVARIANTS ReportInv
