SPECIFICATION Spec
CONSTANTS
  Paths <- MCPathsShort
  RsPaths <- MCRsPaths
  Starts = {10}
  Counts = {3}
  OCounts = {1}
  Headings = {"none"}
  Bodies = {"plain"}
  MaxSections = 2
  MaxHunks = 1
  Ps = {0, 1, 2, 3}
  Filters = {"rs", "src", "none"}
  LazyHeader = TRUE
INVARIANTS Emit
