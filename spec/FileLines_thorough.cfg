SPECIFICATION Spec
CONSTANTS
  MaxRanges = 3
  MaxLine = 5
INVARIANTS DenotesUnion LineQuery RangeQuery IntersectQuery NoEmptySel
