SPECIFICATION Spec
CONSTANTS
  NNames = 2
  NAlias = 1
  NItems = 2
  Grans = {"Item", "Module", "Crate", "One"}
  Viss = {"priv", "pub"}
  MaxList = 1
INVARIANTS Scenario
CHECK_DEADLOCK FALSE
