------------------------------ MODULE Pipeline ------------------------------
(***************************************************************************)
(* One `rustfmt [flags] root_1 .. root_k` invocation (src/bin/main.rs      *)
(* `format`, src/formatting.rs `format_input_inner` / `format_project` /   *)
(* `format_file`, src/source_file.rs, src/emitter/..), one action per      *)
(* critical step.  Properties C05, C06 (exit/read-only clauses), C15       *)
(* (sticky flags, exit = max) and the pipeline part of C13/C16.            *)
(*                                                                         *)
(* A crate root is abstracted to the list of its files in EMISSION order   *)
(* (the BTreeMap<FileName,_> order of format_project); `rp` is the         *)
(* position of the root file in that list, every other file is a child     *)
(* declared by the root.  Tree shapes proper are ModTree.tla's business.   *)
(*                                                                         *)
(* File kinds                                                              *)
(*   "F" formatted   "U" unformatted   "S" carries #![rustfmt::skip]        *)
(*   "E" syntax error   "P" unclosed delimiter (fatal, caught panic path)   *)
(*   "R" syntax error the parser recovers from (`1 === 2`): still an error    *)
(*   "Z" a file of zero bytes (an out-of-line module): its formatted text is  *)
(*       one line terminator, so it is an unformatted file like any other     *)
(*   "T" formatted, but followed by two surplus blank lines at the end of the  *)
(*       file: unformatted like any other, the whole difference is a suffix   *)
(*   "N" not UTF-8   "M" declares a module whose file is missing            *)
(*   "H" a child with a syntax error that its declaration names twice, through  *)
(*       two cfg_attr(.., path = ..) attributes (the file is read once)         *)
(*   "K" a child that opts out with #![rustfmt::skip] AND has a syntax error:  *)
(*       opting out of formatting is not opting out of being parsed            *)
(*   "G" declares, inside cfg_if!, a module whose file is missing (the arms of   *)
(*       cfg_if! are resolved like any other declaration)                      *)
(*   "A" declares a module with both x.rs and x/mod.rs                      *)
(*   "W" formatted, but with CRLF line terminators (differs only under an     *)
(*       explicit newline_style; `fl.nl` is "auto" or "unix")                 *)
(*   "C" child also reachable through #[cfg_attr(.., path = "bad.rs")] whose *)
(*       file has a syntax error (its default file exists and is fine)       *)
(*   "D" child reachable ONLY through two cfg_attr paths: a good file (this  *)
(*       one) and a file with a syntax error, no default file                *)
(* `ign`: the root additionally declares (first) a module gen.rs that is     *)
(*   matched by `ignore = ["gen.rs"]` and contains a recoverable syntax error: *)
(*   an ignored file is invisible -- never written, never a reason to fail,    *)
(*   and never a reason to accept an error somewhere else.                     *)
(* Root-level faults: "badtoml" (malformed rustfmt.toml next to the root),  *)
(*   "vermismatch" (required_version), "missing" (no such path), "dir".     *)
(***************************************************************************)
EXTENDS Naturals, Sequences, FiniteSets, TLC, Json

CONSTANTS MaxRoots, MaxFiles,
          FileFaults,     \* subset of {"E","P","N","M","A","S"}
          RootFaults,     \* subset of {"badtoml","vermismatch","missing","dir"}
          Combos,         \* set of <<mode, [check, backup, list]>> pairs explored
          GenMode,        \* "all": every sequence of shapes; "companion": one shape alone or
                          \*        next to healthy all-unformatted roots
          LocalCfgAborts  \* TRUE: model main::format's `load_config(..)?` as the code has it

ParseFail == {"E", "P", "N", "R", "H", "K"}
ResolveFail == {"M", "A", "C", "G"}
(* what the code does with "D": find_mods_outside_of_ast swallows the parse  *)
(* failure (`Err(..) => continue`); the error stays counted in the session   *)
(* and fails the NEXT parse_file_as_module (`!psess.has_errors()`), if any.  *)
Sticky == {"D"}

(* the kinds of the n files of a root with one optional faulty file *)
KindsOf(n, fault, fpos, pat) ==
  [j \in 1 .. n |->
     IF fault \in FileFaults /\ j = fpos THEN fault
     ELSE IF pat = "allU" THEN "U" ELSE IF pat = "allF" THEN "F"
     ELSE IF j % 2 = 1 THEN "U" ELSE "F"]

RootShapes ==
  { [n |-> n, rp |-> rp, fault |-> f, fpos |-> fp, pat |-> p, ign |-> g] :
      n \in 1 .. MaxFiles, rp \in 1 .. MaxFiles, f \in {"none"} \cup FileFaults \cup RootFaults,
      fp \in 0 .. MaxFiles, p \in {"allU", "allF", "mixed"}, g \in BOOLEAN }

WellFormed(r) ==
  /\ r.rp <= r.n
  /\ (r.fault \in FileFaults) => (r.fpos \in 1 .. r.n)
  /\ (r.fault \notin FileFaults) => r.fpos = 0
  /\ (r.fault \in {"S", "C", "D", "Z", "H", "K"}) => r.fpos # r.rp   \* child-only kinds
  /\ (r.pat = "mixed") => r.n > 1
  /\ r.ign => (r.fault \in {"none", "E", "R", "P", "M"} /\ r.pat # "mixed")

Shapes == {r \in RootShapes : WellFormed(r)}

NoFlags == [operational |-> FALSE, parsing |-> FALSE, formatting |-> FALSE,
            check |-> FALSE, diff |-> FALSE]

VARIABLES roots,     \* Seq of shapes, fixed at Init
          mode, fl,  \* emit mode and [check, backup, list]
          ri,        \* current root (Len(roots)+1 when finished)
          pc,        \* "begin" | "parse_root" | "resolve" | "emit" | "end_root" | "exit" | "done"
          parsed,    \* set of file positions of the current root parsed so far
          next,      \* next child to parse / next file to emit
          rflags,    \* flags of the current report
          flags,     \* session flags (sticky)
          disk,      \* [root -> [pos -> "orig" | "new"]]
          bk,        \* [root -> [pos -> BOOLEAN]]   a .bk sibling holding the original
          outp,      \* stdout records, in order
          diag,      \* roots for which a diagnostic was printed on stderr
          sticky,    \* an error swallowed during resolution is still counted (kind "D")
          early,     \* history: a write happened before the whole root was parsed
          rewrites,  \* history: number of writes of files whose text did not differ
          exit

vars == <<roots, mode, fl, ri, pc, parsed, next, rflags, flags, disk, bk, outp, diag,
          sticky, early, rewrites, exit>>

RECURSIVE SeqsUpTo(_, _)
SeqsUpTo(S, n) == IF n = 0 THEN {<<>>} ELSE
                    LET P == SeqsUpTo(S, n - 1) IN
                    P \cup {Append(s, x) : s \in {q \in P : Len(q) = n - 1}, x \in S}

Healthy == [n |-> IF MaxFiles > 1 THEN 2 ELSE 1, rp |-> 1, fault |-> "none", fpos |-> 0, pat |-> "allU", ign |-> FALSE]
Clean == [Healthy EXCEPT !.pat = "allF"]
NonFailing == {s \in Shapes : s.fault \in {"none", "S", "W", "Z", "T"} /\ ~s.ign}
RootSeqs ==
  IF GenMode = "all" THEN SeqsUpTo(Shapes, MaxRoots) \ {<<>>}
  ELSE {<<s>> : s \in Shapes} \cup {<<s, Healthy>> : s \in Shapes}
       \cup {<<Healthy, s>> : s \in Shapes} \cup {<<Healthy, s, Healthy>> : s \in Shapes}
       \* ... and next to a root that is already formatted (the last input decides nothing)
       \cup {<<s, Clean>> : s \in NonFailing} \cup {<<Clean, s>> : s \in NonFailing}
       \cup {<<s, Clean, Clean>> : s \in NonFailing}

Init ==
  /\ roots \in RootSeqs
  /\ \E c \in Combos : mode = c[1] /\ fl = c[2]
  /\ ri = 1 /\ pc = "begin" /\ parsed = {} /\ next = 1
  /\ rflags = NoFlags /\ flags = NoFlags
  /\ disk = [r \in 1 .. Len(roots) |-> [j \in 1 .. roots[r].n |-> "orig"]]
  /\ bk = [r \in 1 .. Len(roots) |-> [j \in 1 .. roots[r].n |-> FALSE]]
  /\ outp = <<>> /\ diag = {} /\ sticky = FALSE /\ early = FALSE /\ rewrites = 0 /\ exit = 99

R == roots[ri]
K == KindsOf(R.n, R.fault, R.fpos, R.pat)
EffMode == IF fl.check THEN "diff" ELSE mode

NextRoot ==
  /\ ri' = ri + 1 /\ parsed' = {} /\ next' = 1 /\ rflags' = NoFlags /\ sticky' = FALSE
  /\ pc' = IF ri = Len(roots) THEN "exit" ELSE "begin"

(* main::format loop body up to format_and_emit_report *)
Begin ==
  /\ pc = "begin"
  /\ CASE R.fault \in {"missing", "dir"} ->
            /\ flags' = [flags EXCEPT !.operational = TRUE]
            /\ diag' = diag \cup {ri}
            /\ NextRoot /\ UNCHANGED exit
       [] R.fault = "badtoml" /\ LocalCfgAborts ->
            (* `load_config(..)?` returns from `format`: exit 1, later roots untouched *)
            /\ diag' = diag \cup {ri}
            /\ exit' = 1 /\ pc' = "done"
            /\ UNCHANGED <<flags, ri, parsed, next, rflags, sticky>>
       [] R.fault = "badtoml" /\ ~LocalCfgAborts ->
            /\ flags' = [flags EXCEPT !.operational = TRUE]
            /\ diag' = diag \cup {ri}
            /\ NextRoot /\ UNCHANGED exit
       [] R.fault = "vermismatch" ->
            (* format_input_inner: Err(VersionMismatch) -> "Error writing files" *)
            /\ flags' = [flags EXCEPT !.operational = TRUE]
            /\ diag' = diag \cup {ri}
            /\ NextRoot /\ UNCHANGED exit
       [] OTHER ->
            /\ pc' = "parse_root"
            /\ UNCHANGED <<flags, diag, exit, ri, parsed, next, rflags, sticky>>
  /\ UNCHANGED <<roots, mode, fl, disk, bk, outp, early, rewrites>>

(* Parser::parse_crate *)
ParseRoot ==
  /\ pc = "parse_root"
  /\ IF K[R.rp] \in ParseFail
       THEN /\ rflags' = [rflags EXCEPT !.parsing = TRUE]
            /\ diag' = diag \cup {ri}
            /\ pc' = "end_root" /\ UNCHANGED <<parsed, next>>
       ELSE /\ parsed' = {R.rp} /\ next' = 1 /\ pc' = "resolve"
            /\ UNCHANGED <<rflags, diag>>
  /\ UNCHANGED <<roots, mode, fl, ri, flags, disk, bk, outp, sticky, early, rewrites, exit>>

(* ModResolver::visit_crate: one step per child, in declaration order; the *)
(* first failure aborts the whole root with Err(ModuleResolutionError).     *)
ResolveErr ==
  /\ flags' = [flags EXCEPT !.operational = TRUE]
  /\ diag' = diag \cup {ri}
  /\ NextRoot

Resolve ==
  /\ pc = "resolve"
  /\ IF next > R.n
       THEN (* all children parsed; the root's own unresolvable declaration, if any *)
            IF K[R.rp] \in ResolveFail
              THEN ResolveErr
              ELSE /\ pc' = "emit" /\ next' = 1
                   /\ UNCHANGED <<ri, parsed, rflags, flags, diag, sticky>>
       ELSE IF next = R.rp
              THEN /\ next' = next + 1 /\ UNCHANGED <<ri, pc, parsed, rflags, flags, diag, sticky>>
              ELSE IF K[next] \in ParseFail \cup ResolveFail \/ sticky
                     THEN ResolveErr
                     ELSE /\ parsed' = parsed \cup {next} /\ next' = next + 1
                          /\ sticky' = (K[next] \in Sticky)
                          /\ UNCHANGED <<ri, pc, rflags, flags, diag>>
  /\ UNCHANGED <<roots, mode, fl, disk, bk, outp, early, rewrites, exit>>

Differs(k) == k \in {"U", "D", "Z", "T"} \/ (k = "W" /\ fl.nl = "unix")
LineDiffers(k) == k \in {"U", "D", "T"}    \* what the line-based reports (json, modified) can see

(* filter + format_file + handle_formatted_file + emitter, one file per step *)
Emit ==
  /\ pc = "emit"
  /\ IF next > R.n
       THEN /\ pc' = "end_root"
            /\ UNCHANGED <<next, rflags, disk, bk, outp, early, rewrites>>
       ELSE /\ next' = next + 1 /\ pc' = pc
            /\ IF K[next] = "S"
                 THEN UNCHANGED <<rflags, disk, bk, outp, early, rewrites>>
                 ELSE LET d == Differs(K[next]) IN
                      CASE EffMode = "files" ->
                             /\ disk' = IF d THEN [disk EXCEPT ![ri][next] = "new"] ELSE disk
                             /\ bk' = IF d /\ fl.backup THEN [bk EXCEPT ![ri][next] = TRUE] ELSE bk
                             /\ outp' = IF d /\ fl.list /\ ~fl.backup
                                          THEN Append(outp, <<"name", ri, next>>) ELSE outp
                             /\ early' = (early \/ (d /\ parsed # 1 .. R.n))
                             /\ UNCHANGED <<rflags, rewrites>>
                        [] EffMode = "stdout" ->
                             /\ outp' = Append(outp, <<"text", ri, next>>)
                             /\ UNCHANGED <<rflags, disk, bk, early, rewrites>>
                        [] EffMode = "diff" ->
                             /\ rflags' = IF d THEN [rflags EXCEPT !.diff = TRUE] ELSE rflags
                             /\ outp' = IF d THEN Append(outp, <<IF fl.list THEN "name" ELSE "diff", ri, next>>)
                                        ELSE outp
                             /\ UNCHANGED <<disk, bk, early, rewrites>>
                        [] EffMode \in {"json", "modified"} ->
                             /\ rflags' = IF LineDiffers(K[next]) THEN [rflags EXCEPT !.diff = TRUE]
                                          ELSE rflags
                             /\ outp' = IF LineDiffers(K[next]) THEN Append(outp, <<"report", ri, next>>)
                                        ELSE outp
                             /\ UNCHANGED <<disk, bk, early, rewrites>>
                        [] OTHER -> (* checkstyle *)
                             /\ outp' = IF d THEN Append(outp, <<"report", ri, next>>) ELSE outp
                             /\ UNCHANGED <<rflags, disk, bk, early, rewrites>>
  /\ UNCHANGED <<roots, mode, fl, ri, parsed, flags, diag, sticky, exit>>

(* format_input_inner: self.errors.add(report); then back in main::format *)
EndRoot ==
  /\ pc = "end_root"
  /\ flags' = [f \in DOMAIN flags |-> flags[f] \/ rflags[f]]
  /\ NextRoot
  /\ UNCHANGED <<roots, mode, fl, disk, bk, outp, diag, early, rewrites, exit>>

Exit ==
  /\ pc = "exit"
  /\ exit' = IF flags.operational \/ flags.parsing \/ (fl.check /\ (flags.diff \/ flags.check))
               THEN 1 ELSE 0
  /\ pc' = "done"
  /\ UNCHANGED <<roots, mode, fl, ri, parsed, next, rflags, flags, disk, bk, outp, diag,
                 sticky, early, rewrites>>

Next == Begin \/ ParseRoot \/ Resolve \/ Emit \/ EndRoot \/ Exit
Spec == Init /\ [][Next]_vars /\ WF_vars(Next)

-----------------------------------------------------------------------------
(* Declarative clauses over the final observable state.                     *)
Done == pc = "done"
Kinds(r) == KindsOf(roots[r].n, roots[r].fault, roots[r].fpos, roots[r].pat)
Failing(r) == roots[r].fault \in RootFaults
              \/ \E j \in 1 .. roots[r].n : Kinds(r)[j] \in ParseFail \cup ResolveFail \cup Sticky
Writes == EffMode = "files"

Rewritten(k) == k \in {"U", "Z", "T"} \/ (k = "W" /\ fl.nl = "unix")

(* C05 *)
FailedRootIntact ==
  \A r \in 1 .. Len(roots) : Failing(r) =>
      \A j \in 1 .. roots[r].n : disk[r][j] = "orig" /\ ~bk[r][j]
OtherRootsFormatted ==
  (Done /\ Writes) =>
    \A r \in 1 .. Len(roots) : ~Failing(r) =>
      \A j \in 1 .. roots[r].n :
         disk[r][j] = (IF Rewritten(Kinds(r)[j]) THEN "new" ELSE "orig")
ExitOne == Done => ((\E r \in 1 .. Len(roots) : Failing(r)) => exit = 1)
Diagnosed == Done /\ ~LocalCfgAborts => \A r \in 1 .. Len(roots) : Failing(r) => r \in diag
NoWriteBeforeResolved == ~early

(* C06 *)
ReadOnlyModes ==
  ~Writes => \A r \in 1 .. Len(roots) : \A j \in 1 .. roots[r].n : disk[r][j] = "orig" /\ ~bk[r][j]
WouldRewrite == \E r \in 1 .. Len(roots) : ~Failing(r) /\ \E j \in 1 .. roots[r].n : Rewritten(Kinds(r)[j])
ExitRelation ==
  (Done /\ ~\E r \in 1 .. Len(roots) : Failing(r)) =>
      IF fl.check THEN (exit = 1 <=> WouldRewrite) ELSE exit = 0
WriteOnlyIfDiffers ==
  \A r \in 1 .. Len(roots) : \A j \in 1 .. roots[r].n :
      ~Rewritten(Kinds(r)[j]) => (disk[r][j] = "orig" /\ ~bk[r][j])
BackupIffChanged ==
  (Done /\ Writes /\ fl.backup) =>
     \A r \in 1 .. Len(roots) : \A j \in 1 .. roots[r].n : bk[r][j] <=> disk[r][j] = "new"

(* C15 / C16 *)
Terminates == <>Done
ExitIs01 == Done => exit \in {0, 1}

TypeOK == /\ ri \in 1 .. Len(roots) + 1
          /\ pc \in {"begin", "parse_root", "resolve", "emit", "end_root", "exit", "done"}

-----------------------------------------------------------------------------
Scenario ==
  [tag |-> "REPLAY", roots |-> roots, mode |-> mode, fl |-> fl,
   kinds |-> [r \in 1 .. Len(roots) |-> Kinds(r)],
   disk |-> disk, bk |-> bk, outp |-> outp, diag |-> diag, exit |-> exit,
   flags |-> flags]
EmitScenario == Done => PrintT(ToJson(Scenario))
=============================================================================
