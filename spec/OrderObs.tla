------------------------------ MODULE OrderObs ------------------------------
(***************************************************************************)
(* C11: laws of a comparison evaluated by TLC on the table OBSERVED from   *)
(* the real code.                                                          *)
(*  kind "cmp"   : {names:[[chars]..], table:[[c..]..]}  c = "L"|"E"|"G"   *)
(*                 (the exported version_sort) -- also compared with the   *)
(*                 transcription VersionSort                               *)
(*  kind "before": {n, keeps:[[b..]..]}  keeps[i][j] = formatting the two  *)
(*                 declarations in the order (i, j) leaves them in that    *)
(*                 order (observed through the whole formatter)            *)
(***************************************************************************)
EXTENDS VersionSortCore, TLC, Json, IOUtils
Rec == ndJsonDeserialize(IOEnv.TRACE)
VARIABLE l
Init == l = 1
Next == l < Len(Rec) /\ l' = l + 1
Spec == Init /\ [][Next]_l
R == Rec[l]

N == IF R.kind = "cmp" THEN Len(R.names) ELSE R.n
IsCmp == R.kind \in {"cmp", "cmponly"}   \* "cmponly": laws only, names outside the transcription's bounds
T(i, j) == R.table[i][j]
CmpReflexive == IsCmp => \A i \in 1 .. N : T(i, i) = "E"
CmpAntisymmetric == IsCmp => \A i, j \in 1 .. N : T(i, j) = Rev(T(j, i))
CmpTransitive == IsCmp =>
  \A i, j, k \in 1 .. N : (Leq(T(i, j)) /\ Leq(T(j, k))) => Leq(T(i, k))
(* `the order produced is a function of the elements alone': two DIFFERENT identifiers are never *)
(* ranked equal (a stable sort would keep them in input order, and two permutations of one   *)
(* group would format differently); R.same[i][j]: names i and j are the same text            *)
CmpSeparates == (IsCmp /\ "same" \in DOMAIN R) =>
  \A i, j \in 1 .. N : T(i, j) = "E" => R.same[i][j]
CmpAsModel == R.kind = "cmp" =>
  \A i, j \in 1 .. N : T(i, j) = VersionSort(R.names[i], R.names[j])

K(i, j) == R.keeps[i][j]
(* a total preorder: any two elements are comparable, and "not after" is transitive *)
BeforeTotal == R.kind = "before" => \A i, j \in 1 .. N : i # j => (K(i, j) \/ K(j, i))
BeforeTransitive == R.kind = "before" =>
  \A i, j, k \in 1 .. N : (i # j /\ j # k /\ i # k /\ K(i, j) /\ K(j, k)) => K(i, k)

ReportInv ==
  LET F == {n \in {"CmpReflexive", "CmpAntisymmetric", "CmpTransitive", "CmpAsModel", "CmpSeparates",
                   "BeforeTotal", "BeforeTransitive"} :
              ~(CASE n = "CmpReflexive" -> CmpReflexive [] n = "CmpAntisymmetric" -> CmpAntisymmetric
                  [] n = "CmpTransitive" -> CmpTransitive [] n = "CmpAsModel" -> CmpAsModel
                  [] n = "CmpSeparates" -> CmpSeparates
                  [] n = "BeforeTotal" -> BeforeTotal [] n = "BeforeTransitive" -> BeforeTransitive)}
  IN F = {} \/ PrintT(ToJson([tag |-> "FAIL", l |-> l, fails |-> F]))
=============================================================================
