---------------------------- MODULE NewlineCore -----------------------------
(***************************************************************************)
(* src/formatting/newline_style.rs: auto-detection and the two converters, *)
(* as functions over sequences of {"c", "cr", "lf"} ("c" = any other       *)
(* character), with the declarative clauses of property C08:               *)
(*  Unix    : no CR LF pair is left                                        *)
(*  Windows : every LF is preceded by CR                                   *)
(*  Auto    : the style of the first terminator of the raw input           *)
(*  converting changes nothing but the terminators.                        *)
(* TLC enumerates every text up to MaxLen.                                 *)
(***************************************************************************)
EXTENDS Naturals, Sequences, FiniteSets, TLC, Json

Sym == {"c", "cr", "lf"}


(* ---- operational ---- *)
(* convert_to_windows_newlines: LF -> CR LF; a CR directly before LF is dropped *)
RECURSIVE ToWin(_, _)
ToWin(t, i) ==
  IF i > Len(t) THEN <<>>
  ELSE IF t[i] = "lf" THEN <<"cr", "lf">> \o ToWin(t, i + 1)
  ELSE IF t[i] = "cr" /\ i < Len(t) /\ t[i + 1] = "lf" THEN ToWin(t, i + 1)
  ELSE <<t[i]>> \o ToWin(t, i + 1)

(* convert_to_unix_newlines: str::replace("\r\n", "\n"), leftmost non-overlapping *)
RECURSIVE ToUnix(_, _)
ToUnix(t, i) ==
  IF i > Len(t) THEN <<>>
  ELSE IF t[i] = "cr" /\ i < Len(t) /\ t[i + 1] = "lf" THEN <<"lf">> \o ToUnix(t, i + 2)
  ELSE <<t[i]>> \o ToUnix(t, i + 1)

(* auto_detect_newline_style: the character before the first LF *)
FirstLF(t) == IF \E i \in 1 .. Len(t) : t[i] = "lf"
                THEN CHOOSE i \in 1 .. Len(t) : t[i] = "lf" /\ \A j \in 1 .. i - 1 : t[j] # "lf"
                ELSE 0
Auto(raw) == LET p == FirstLF(raw) IN
             IF p = 0 THEN "native"
             ELSE IF p > 1 /\ raw[p - 1] = "cr" THEN "windows" ELSE "unix"
(* `saturating_sub(1)` + `chars().nth()`: for p = 1 it looks at the LF itself -> unix *)

Apply(style, text, raw) ==
  LET eff == IF style = "auto" THEN (IF Auto(raw) = "native" THEN "unix" ELSE Auto(raw)) ELSE style
  IN IF eff = "windows" THEN ToWin(text, 1) ELSE ToUnix(text, 1)

(* ---- declarative ---- *)
NoCRLF(t) == ~\E i \in 1 .. Len(t) - 1 : t[i] = "cr" /\ t[i + 1] = "lf"
AllCRLF(t) == \A i \in 1 .. Len(t) : t[i] = "lf" => (i > 1 /\ t[i - 1] = "cr")
(* the text with every terminator (CR LF or LF) replaced by one mark *)
RECURSIVE Content(_, _)
Content(t, i) ==
  IF i > Len(t) THEN <<>>
  ELSE IF t[i] = "cr" /\ i < Len(t) /\ t[i + 1] = "lf" THEN <<"nl">> \o Content(t, i + 2)
  ELSE IF t[i] = "lf" THEN <<"nl">> \o Content(t, i + 1)
  ELSE <<t[i]>> \o Content(t, i + 1)


(* Texts the formatter can hand to the converters: the source map has already   *)
(* turned CR LF into LF, trailing blanks (CR included) are trimmed from every    *)
(* line and rustc rejects a bare CR in string literals and doc comments, so a CR *)
(* only ever survives in the middle of a line of an ordinary comment.            *)
Producible(t) == \A i \in 1 .. Len(t) : t[i] = "cr" => (i < Len(t) /\ t[i + 1] = "c")
=============================================================================
