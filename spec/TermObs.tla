------------------------------- MODULE TermObs ------------------------------
(***************************************************************************)
(* C16: rustfmt never terminates abnormally -- evaluated by TLC on runs of *)
(* the real code on U-core points and on token-level mutants of them.      *)
(* Record: {outcome, render_panic, exit, slow}                              *)
(*  outcome: "ok" (a report, possibly with errors) | "err" (Err(..): a     *)
(*           diagnostic) | "panic" (a panic escaped every containment zone *)
(*           of the library: the binary would die) | "died" (abort, stack  *)
(*           overflow, signal) | "timeout"                                 *)
(*  render_panic: printing the report the way `main` does panicked         *)
(*  exit: exit status of the real binary on the same input (-1 = not run,  *)
(*        negative below -1 = killed by a signal)                          *)
(***************************************************************************)
EXTENDS Naturals, Integers, Sequences, FiniteSets, TLC, Json, IOUtils
Rec == ndJsonDeserialize(IOEnv.TRACE)
VARIABLE l
Init == l = 1
Next == l < Len(Rec) /\ l' = l + 1
Spec == Init /\ [][Next]_l
R == Rec[l]

(* a panic inside the parser or inside one macro is contained: none may escape *)
NoEscapedPanic == R.outcome # "panic" /\ ~R.render_panic
(* no abort, stack overflow or signal *)
NoDeath == R.outcome # "died"
(* it finishes *)
Finishes == R.outcome # "timeout"
(* the process ends with status 0 or 1 *)
ExitIs01 == R.exit = -1 \/ R.exit \in {0, 1}

ReportInv ==
  LET F == {n \in {"NoEscapedPanic", "NoDeath", "Finishes", "ExitIs01"} :
              ~(CASE n = "NoEscapedPanic" -> NoEscapedPanic [] n = "NoDeath" -> NoDeath
                  [] n = "Finishes" -> Finishes [] n = "ExitIs01" -> ExitIs01)}
  IN F = {} \/ PrintT(ToJson([tag |-> "FAIL", l |-> l, fails |-> F]))
=============================================================================
