-------------------------- MODULE VersionSortCore ---------------------------
(***************************************************************************)
(* src/sort.rs: `VersionChunkIter` and `version_sort`, over identifiers    *)
(* given as sequences of one-character strings.  Property C11: the         *)
(* comparison must be a consistent total preorder.                         *)
(* Result of a comparison: -1 (Less), 0 (Equal), 1 (Greater), encoded      *)
(* as "L" | "E" | "G".                                                     *)
(***************************************************************************)
EXTENDS Naturals, Sequences, FiniteSets

Digits == {"0", "1", "2", "9"}
Ord(c) == CASE c = "0" -> 48 [] c = "1" -> 49 [] c = "2" -> 50 [] c = "9" -> 57
            [] c = "A" -> 65 [] c = "B" -> 66 [] c = "_" -> 95 [] c = "a" -> 97 [] c = "b" -> 98
            [] OTHER -> 120
DVal(c) == Ord(c) - 48

RECURSIVE StrCmp(_, _, _)
StrCmp(s, t, i) ==
  IF i > Len(s) /\ i > Len(t) THEN "E"
  ELSE IF i > Len(s) THEN "L"
  ELSE IF i > Len(t) THEN "G"
  ELSE IF Ord(s[i]) < Ord(t[i]) THEN "L"
  ELSE IF Ord(s[i]) > Ord(t[i]) THEN "G"
  ELSE StrCmp(s, t, i + 1)

RECURSIVE RunEnd(_, _, _)
(* index one past the maximal run starting at i of characters satisfying the class *)
RunEnd(id, i, isDigit) ==
  IF i > Len(id) THEN i
  ELSE IF isDigit THEN (IF id[i] \in Digits THEN RunEnd(id, i + 1, isDigit) ELSE i)
  ELSE (IF id[i] \in Digits \/ id[i] = "_" THEN i ELSE RunEnd(id, i + 1, isDigit))

RECURSIVE NumVal(_, _, _)
NumVal(s, i, acc) == IF i > Len(s) THEN acc ELSE NumVal(s, i + 1, acc * 10 + DVal(s[i]))
RECURSIVE LeadZeros(_, _)
LeadZeros(s, i) == IF i > Len(s) \/ s[i] # "0" THEN 0 ELSE 1 + LeadZeros(s, i + 1)

RECURSIVE Chunks(_, _)
Chunks(id, i) ==
  IF i > Len(id) THEN <<>>
  ELSE IF id[i] = "_" THEN <<[k |-> "U"]>> \o Chunks(id, i + 1)
  ELSE IF id[i] \in Digits
    THEN LET e == RunEnd(id, i, TRUE)  src == SubSeq(id, i, e - 1) IN
         <<[k |-> "N", v |-> NumVal(src, 1, 0), z |-> LeadZeros(src, 1), src |-> src]>> \o Chunks(id, e)
    ELSE LET e == RunEnd(id, i, FALSE)  src == SubSeq(id, i, e - 1) IN
         <<[k |-> "S", src |-> src]>> \o Chunks(id, e)

RECURSIVE CmpChunks(_, _, _, _)
(* mlz: "E" | "L" (left had more leading zeros first) | "R" *)
CmpChunks(ca, cb, i, mlz) ==
  IF i > Len(ca) /\ i > Len(cb)
    THEN (IF mlz = "E" THEN "E" ELSE IF mlz = "L" THEN "L" ELSE "G")
  ELSE IF i > Len(cb) THEN "G"         \* EitherOrBoth::Left
  ELSE IF i > Len(ca) THEN "L"         \* EitherOrBoth::Right
  ELSE LET a == ca[i]  b == cb[i] IN
       IF a.k = "U" /\ b.k = "U" THEN CmpChunks(ca, cb, i + 1, mlz)
       ELSE IF a.k = "U" THEN "L"
       ELSE IF b.k = "U" THEN "G"
       ELSE IF a.k = "N" /\ b.k = "N"
         THEN IF a.v < b.v THEN "L" ELSE IF a.v > b.v THEN "G"
              ELSE IF a.z = b.z THEN CmpChunks(ca, cb, i + 1, mlz)
              ELSE CmpChunks(ca, cb, i + 1,
                             IF mlz = "E" THEN (IF a.z > b.z THEN "L" ELSE "R") ELSE mlz)
         ELSE LET c == StrCmp(a.src, b.src, 1) IN
              IF c = "E" THEN CmpChunks(ca, cb, i + 1, mlz) ELSE c

VersionSort(a, b) == CmpChunks(Chunks(a, 1), Chunks(b, 1), 1, "E")

Rev(c) == IF c = "L" THEN "G" ELSE IF c = "G" THEN "L" ELSE "E"
Leq(c) == c \in {"L", "E"}
=============================================================================
