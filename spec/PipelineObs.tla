---------------------------- MODULE PipelineObs -----------------------------
(* The declarative clauses of Pipeline.tla evaluated by TLC on OBSERVED final *)
(* states of real `rustfmt` invocations (one record per invocation):          *)
(*  {roots, mode, fl, disk, bk, exit, diag, outp_ok, report_ok, intact_extra} *)
EXTENDS Pipeline, IOUtils

Rec == ndJsonDeserialize(IOEnv.TRACE)

VARIABLE l
ovars == <<vars, l>>

Load(i) ==
  /\ roots = Rec[i].roots /\ mode = Rec[i].mode /\ fl = Rec[i].fl
  /\ disk = Rec[i].disk /\ bk = Rec[i].bk /\ exit = Rec[i].exit
  /\ diag = {r \in 1 .. Len(Rec[i].roots) : Rec[i].diag[r]}
  /\ ri = Len(Rec[i].roots) + 1 /\ pc = "done" /\ parsed = {} /\ next = 1
  /\ rflags = NoFlags /\ flags = NoFlags /\ outp = <<>> /\ sticky = FALSE /\ early = FALSE /\ rewrites = 0

OInit == l = 1 /\ Load(1)
ONext ==
  /\ l < Len(Rec) /\ l' = l + 1
  /\ LET i == l + 1 IN
     /\ roots' = Rec[i].roots /\ mode' = Rec[i].mode /\ fl' = Rec[i].fl
     /\ disk' = Rec[i].disk /\ bk' = Rec[i].bk /\ exit' = Rec[i].exit
     /\ diag' = {r \in 1 .. Len(Rec[i].roots) : Rec[i].diag[r]}
     /\ ri' = Len(Rec[i].roots) + 1
  /\ UNCHANGED <<pc, parsed, next, rflags, flags, outp, sticky, early, rewrites>>
OSpec == OInit /\ [][ONext]_ovars

(* extra clauses that only make sense on observations *)
StdoutAgrees == Rec[l].outp_ok       \* stdout text / -l listing agree with the files-mode text
ReportAgrees == Rec[l].report_ok     \* json / modified-lines / diff report rebuilds the same text
ExtrasIntact == Rec[l].intact_extra  \* files no module declares (decoys, ambiguous pairs) untouched
NoOtherContent ==
  \A r \in 1 .. Len(roots) : \A j \in 1 .. roots[r].n : disk[r][j] \in {"orig", "new"}

Names == {"FailedRootIntact", "OtherRootsFormatted", "ExitOne", "Diagnosed", "ReadOnlyModes",
          "ExitRelation", "WriteOnlyIfDiffers", "BackupIffChanged", "ExitIs01", "StdoutAgrees",
          "ReportAgrees", "ExtrasIntact", "NoOtherContent"}
Holds(n) ==
  CASE n = "FailedRootIntact" -> FailedRootIntact
    [] n = "OtherRootsFormatted" -> OtherRootsFormatted
    [] n = "ExitOne" -> ExitOne
    [] n = "Diagnosed" -> Diagnosed
    [] n = "ReadOnlyModes" -> ReadOnlyModes
    [] n = "ExitRelation" -> ExitRelation
    [] n = "WriteOnlyIfDiffers" -> WriteOnlyIfDiffers
    [] n = "BackupIffChanged" -> BackupIffChanged
    [] n = "ExitIs01" -> ExitIs01
    [] n = "StdoutAgrees" -> StdoutAgrees
    [] n = "ReportAgrees" -> ReportAgrees
    [] n = "ExtrasIntact" -> ExtrasIntact
    [] n = "NoOtherContent" -> NoOtherContent
(* one pass: print every failing clause of every record, never stop *)
ReportInv ==
  LET F == {n \in Names : ~Holds(n)}
  IN F = {} \/ PrintT(ToJson([tag |-> "FAIL", l |-> l, fails |-> F]))
=============================================================================
