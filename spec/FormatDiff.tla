----------------------------- MODULE FormatDiff -----------------------------
(***************************************************************************)
(* rustfmt-format-diff (src/format-diff/main.rs): `scan_diff` as a         *)
(* line-by-line machine over an abstract unified diff, against the         *)
(* declarative meaning of the patch (property C19): for every file section *)
(* whose post-image path, stripped of `p` leading components, matches the  *)
(* filter, the range [start, start+count-1] of every hunk with count > 0.  *)
(*                                                                         *)
(* A patch is a sequence of sections [path, hunks]; a path is a sequence   *)
(* of components; a hunk is                                                *)
(*   [oc, ocShown, ns, nc, ncShown, heading, body]   (old start = new start) *)
(*   heading: "none" | "text" | "plusnum"  (section heading after the 2nd  *)
(*            @@; "plusnum" contains " +7" like `let x = y +7;`)           *)
(*   body:    "plain" | "plus3" (an ADDED line whose text is               *)
(*            `++ b/other/z.rs`, which the patch shows as `+++ b/other/..`) *)
(* Rendering to text is the harness's job; the abstract line records below *)
(* carry exactly what the two regular expressions of scan_diff can see.    *)
(***************************************************************************)
EXTENDS Naturals, Sequences, FiniteSets, TLC, Json

CONSTANTS Paths,        \* set of paths (sequences of components)
          RsPaths,      \* those whose last component ends in ".rs"
          Starts, Counts, OCounts, Headings, Bodies,
          MaxSections, MaxHunks,
          Ps,           \* -p values
          Filters,      \* "rs" (default .*\.rs) | "src" (src/.*) | "none" (matches nothing)
          LazyHeader    \* TRUE: the hunk-header regex takes the FIRST "+n" (fixed code);
                        \* FALSE: greedy `.*` takes the LAST one (pinned code)

OtherPath == <<"b", "other", "z.rs">>

Hunks == [oc : OCounts, ocShown : BOOLEAN, ns : Starts, nc : Counts,
          ncShown : BOOLEAN, heading : Headings, body : Bodies]
WFHunk(h) == /\ (h.nc # 1 => h.ncShown) /\ (h.oc # 1 => h.ocShown)
             /\ (h.body = "plus3" => h.nc > 0)
             /\ (h.body = "minus3" => h.oc > 0)    \* a REMOVED line whose text is `-- x`: `--- x`
GoodHunks == {h \in Hunks : WFHunk(h)}

RECURSIVE SeqsUpTo(_, _)
SeqsUpTo(S, n) == IF n = 0 THEN {<<>>} ELSE
                    LET P == SeqsUpTo(S, n - 1) IN
                    P \cup {Append(s, x) : s \in {q \in P : Len(q) = n - 1}, x \in S}

Sections == [path : Paths, hunks : SeqsUpTo(GoodHunks, MaxHunks) \ {<<>>}]

(* abstract lines *)
LinesOfHunk(h) ==
  <<[k |-> "hunk", first |-> [s |-> h.ns, c |-> IF h.ncShown THEN h.nc ELSE 99],
     last  |-> IF h.heading = "plusnum" THEN [s |-> 7, c |-> 99]
               ELSE [s |-> h.ns, c |-> IF h.ncShown THEN h.nc ELSE 99]]>>
  \o (IF h.body = "plus3" THEN <<[k |-> "plus3", path |-> OtherPath]>>
      ELSE IF h.body = "minus3" THEN <<[k |-> "minus3"]>> ELSE <<[k |-> "text"]>>)

RECURSIVE LinesOfHunks(_, _)
LinesOfHunks(hs, j) == IF j > Len(hs) THEN <<>> ELSE LinesOfHunk(hs[j]) \o LinesOfHunks(hs, j + 1)
LinesOfSection(sec) ==
  <<[k |-> "text"], [k |-> "minus3"], [k |-> "plus3", path |-> sec.path]>>
  \o LinesOfHunks(sec.hunks, 1)
RECURSIVE LinesOf(_, _)
LinesOf(patch, j) == IF j > Len(patch) THEN <<>> ELSE LinesOfSection(patch[j]) \o LinesOf(patch, j + 1)

(* the file-header regular expression: three plus signs, a blank, p path components, the rest *)
Strip(path, p) == IF Len(path) > p THEN SubSeq(path, p + 1, Len(path)) ELSE <<>>
Matches(name, flt) ==
  /\ name # <<>>
  /\ CASE flt = "rs" -> \E q \in RsPaths : Len(q) >= Len(name) /\ SubSeq(q, Len(q) - Len(name) + 1, Len(q)) = name
       [] flt = "src" -> name[1] = "src"
       [] OTHER -> FALSE

VARIABLES patch, p, flt, lines, i, cur, files, ranges
vars == <<patch, p, flt, lines, i, cur, files, ranges>>

Init ==
  /\ patch \in (SeqsUpTo(Sections, MaxSections) \ {<<>>})
  /\ p \in Ps /\ flt \in Filters
  /\ lines = LinesOf(patch, 1)
  /\ i = 1 /\ cur = <<"?">> /\ files = {} /\ ranges = <<>>

(* one line of the `for line in ..lines()` loop *)
Step ==
  /\ i <= Len(lines)
  /\ LET ln == lines[i]
         cur1 == IF ln.k = "plus3" /\ Len(ln.path) > p THEN Strip(ln.path, p) ELSE cur
         hdr == IF ln.k = "hunk" THEN (IF LazyHeader THEN ln.first ELSE ln.last) ELSE [s |-> 0, c |-> 0]
         cnt == IF hdr.c = 99 THEN 1 ELSE hdr.c
     IN /\ cur' = cur1
        /\ IF cur1 # <<"?">> /\ Matches(cur1, flt) /\ ln.k = "hunk" /\ cnt > 0
             THEN /\ files' = files \cup {cur1}
                  /\ ranges' = Append(ranges, <<cur1, hdr.s, hdr.s + cnt - 1>>)
             ELSE UNCHANGED <<files, ranges>>
  /\ i' = i + 1
  /\ UNCHANGED <<patch, p, flt, lines>>

Next == Step
Spec == Init /\ [][Next]_vars
Done == i = Len(lines) + 1

-----------------------------------------------------------------------------
(* Declarative meaning, from the structure of the patch.                    *)
RECURSIVE HunkRanges(_, _, _)
HunkRanges(name, hs, j) ==
  IF j > Len(hs) THEN <<>>
  ELSE (IF hs[j].nc > 0 THEN <<<<name, hs[j].ns, hs[j].ns + hs[j].nc - 1>>>> ELSE <<>>)
       \o HunkRanges(name, hs, j + 1)
RECURSIVE Expected(_, _, _, _)
Expected(pt, j, pp, f) ==
  IF j > Len(pt) THEN <<>>
  ELSE LET name == Strip(pt[j].path, pp) IN
       (IF Matches(name, f) THEN HunkRanges(name, pt[j].hunks, 1) ELSE <<>>)
       \o Expected(pt, j + 1, pp, f)
ExpFiles(rs) == {rs[j][1] : j \in 1 .. Len(rs)}

Correct == Done => /\ ranges = Expected(patch, 1, p, flt)
                   /\ files = ExpFiles(Expected(patch, 1, p, flt))

Emit == Done => PrintT(ToJson([tag |-> "REPLAY", patch |-> patch, p |-> p, flt |-> flt,
                               files |-> files, ranges |-> ranges,
                               expected |-> Expected(patch, 1, p, flt)]))
=============================================================================
