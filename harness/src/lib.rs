#![feature(rustc_private)]
pub mod util;
