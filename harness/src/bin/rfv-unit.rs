//! Export-hook driver: runs crate-private functions of rustfmt (through
//! `rustfmt_nightly::verif`) on enumerated inputs and prints observations as
//! NDJSON for TLC.
#![feature(rustc_private)]
extern crate rustc_driver;
extern crate rustc_lexer;

use std::collections::HashMap;
use std::io::{BufRead, Write};
use std::path::PathBuf;

use rustfmt_nightly::verif;
use rustfmt_nightly::{Config, EmitMode};
use serde_json::{Value, json};

fn main() {
    let args: Vec<String> = std::env::args().collect();
    let cmd = args.get(1).map(String::as_str).unwrap_or("");
    match cmd {
        "makediff" => makediff(&args[2..]),
        "makediff-pairs" => makediff_pairs(&args[2..]),
        "linescan" => linescan(&args[2..]),
        "newline" => newline(&args[2..]),
        "filelines" => filelines(&args[2..]),
        "versionsort" => versionsort(),
        "commentkind" => commentkind(),
        _ => {
            eprintln!("usage: rfv-unit <makediff|makediff-pairs> ...");
            std::process::exit(2);
        }
    }
}

/// Independent line splitter with the semantics the reports are defined on:
/// `str::lines` plus one virtual empty line when the text ends in LF.
fn lines_of(t: &str) -> Vec<String> {
    if t.is_empty() {
        return vec![];
    }
    t.split('\n')
        .map(|p| p.strip_suffix('\r').unwrap_or(p).to_owned())
        .collect()
}

struct Ids {
    map: HashMap<String, u32>,
    names: Vec<String>,
}
impl Ids {
    fn new() -> Ids {
        Ids {
            map: HashMap::new(),
            names: vec![],
        }
    }
    fn id(&mut self, s: &str) -> u32 {
        if let Some(i) = self.map.get(s) {
            return *i;
        }
        let i = self.names.len() as u32 + 1;
        self.map.insert(s.to_owned(), i);
        self.names.push(s.to_owned());
        i
    }
}

fn xorshift(s: &mut u64) -> u64 {
    *s ^= *s << 13;
    *s ^= *s >> 7;
    *s ^= *s << 17;
    *s
}

/// Build the observation record for one (orig, fmt, ctx).
fn observe(orig: &str, fmt: &str, ctx: usize, with_emitters: bool) -> Value {
    let mut ids = Ids::new();
    let ol: Vec<u32> = lines_of(orig).iter().map(|l| ids.id(l)).collect();
    let fl: Vec<u32> = lines_of(fmt).iter().map(|l| ids.id(l)).collect();
    let hunks = verif::make_diff(orig, fmt, ctx);
    let hj: Vec<Value> = hunks
        .iter()
        .map(|(ln, lno, lines)| {
            json!({"ln": ln, "lno": lno,
                   "lines": lines.iter().map(|(t, s)| json!([t.to_string(), ids.id(s)])).collect::<Vec<_>>()})
        })
        .collect();
    let mut rec = json!({
        "orig": ol, "fmt": fl, "ctx": ctx, "hunks": hj,
        "chunks": [], "reparsed": [], "json": [], "cs": [],
        "has": {"ml": false, "json": false, "cs": false},
        "json_wf": true, "cs_wf": true,
    });
    if with_emitters {
        // modified lines: structure, printed form, re-parsed form
        let ml = verif::modified_lines(orig, fmt);
        let printed = ml.to_string();
        let chunk_json = |m: &rustfmt_nightly::ModifiedLines, ids: &mut Ids| -> Vec<Value> {
            m.chunks
                .iter()
                .map(|c| {
                    json!({"at": c.line_number_orig, "removed": c.lines_removed,
                       "added": c.lines.iter().map(|l| ids.id(l)).collect::<Vec<_>>()})
                })
                .collect()
        };
        rec["chunks"] = json!(chunk_json(&ml, &mut ids));
        rec["reparsed"] = match printed.parse::<rustfmt_nightly::ModifiedLines>() {
            Ok(m) => json!(chunk_json(&m, &mut ids)),
            Err(()) => json!([{"at": 0, "removed": 0, "added": []}]),
        };
        rec["has"]["ml"] = json!(true);
        // the ModifiedLines emitter must print exactly that
        let mut cfg = Config::default();
        cfg.set().emit_mode(EmitMode::ModifiedLines);
        if let Ok((bytes, _)) = verif::emit_pair(&cfg, Some(PathBuf::from("x.rs")), orig, fmt) {
            if bytes != printed.as_bytes() {
                rec["reparsed"] = json!([{"at": 0, "removed": 0, "added": []}]);
            }
        }
        // json
        let mut cfg = Config::default();
        cfg.set().emit_mode(EmitMode::Json);
        match verif::emit_pair(&cfg, Some(PathBuf::from("x.rs")), orig, fmt) {
            Ok((bytes, _)) => match serde_json::from_slice::<Value>(&bytes) {
                Ok(doc) => {
                    let mut blocks = vec![];
                    let mut wf = doc.is_array();
                    for f in doc.as_array().cloned().unwrap_or_default() {
                        for b in f["mismatches"].as_array().cloned().unwrap_or_default() {
                            let split = |s: &str, ids: &mut Ids| -> Vec<u32> {
                                let mut v: Vec<&str> = s.split('\n').collect();
                                if v.last() == Some(&"") {
                                    v.pop();
                                }
                                v.iter().map(|l| ids.id(l)).collect()
                            };
                            let (Some(o), Some(e)) = (b["original"].as_str(), b["expected"].as_str())
                            else {
                                wf = false;
                                continue;
                            };
                            blocks.push(json!({
                                "ob": b["original_begin_line"], "oe": b["original_end_line"],
                                "eb": b["expected_begin_line"], "ee": b["expected_end_line"],
                                "orig": split(o, &mut ids), "exp": split(e, &mut ids)}));
                        }
                    }
                    rec["json"] = json!(blocks);
                    rec["json_wf"] = json!(wf);
                }
                Err(_) => rec["json_wf"] = json!(false),
            },
            Err(_) => rec["json_wf"] = json!(false),
        }
        rec["has"]["json"] = json!(true);
        // checkstyle: raw document; well-formedness and entries are decided by
        // an XML parser on the Python side.
        let mut cfg = Config::default();
        cfg.set().emit_mode(EmitMode::Checkstyle);
        if let Ok((bytes, _)) = verif::emit_pair(&cfg, Some(PathBuf::from("x.rs")), orig, fmt) {
            rec["cs_xml"] = json!(String::from_utf8_lossy(&bytes));
        }
        rec["line_names"] = json!(ids.names);
    }
    rec
}

fn script_of(orig: &str, fmt: &str) -> String {
    diff::lines(orig, fmt)
        .iter()
        .map(|r| match r {
            diff::Result::Left(_) => 'L',
            diff::Result::Right(_) => 'R',
            diff::Result::Both(..) => 'B',
        })
        .collect()
}

/// makediff <table.ndjson> <max_lines> <seed> <sample_per_mille>
/// Enumerates all pairs of texts (line sequences of length <= max_lines over
/// {"a","b",""}, with and without final newline) x context 0..3; compares the
/// real make_diff with the model's table; prints summary + observation records.
fn makediff(args: &[String]) {
    let table_path = &args[0];
    let max_lines: usize = args[1].parse().unwrap();
    let seed: u64 = args[2].parse().unwrap();
    let per_mille: u64 = args[3].parse().unwrap();
    // model table: (script, ctx) -> hunks [(ln, lno, [(tag, idx)])]
    let mut table: HashMap<(String, usize), Value> = HashMap::new();
    for line in std::io::BufReader::new(std::fs::File::open(table_path).unwrap()).lines() {
        let v: Value = serde_json::from_str(&line.unwrap()).unwrap();
        let script: String = v["script"]
            .as_array()
            .unwrap()
            .iter()
            .map(|x| x.as_str().unwrap())
            .collect();
        table.insert((script, v["ctx"].as_u64().unwrap() as usize), v["hunks"].clone());
    }
    let alphabet = ["a", "b", ""];
    let mut seqs: Vec<Vec<&str>> = vec![vec![]];
    let mut frontier: Vec<Vec<&str>> = vec![vec![]];
    for _ in 0..max_lines {
        let mut next = vec![];
        for s in &frontier {
            for a in alphabet {
                let mut t = s.clone();
                t.push(a);
                next.push(t);
            }
        }
        seqs.extend(next.iter().cloned());
        frontier = next;
    }
    let mut texts: Vec<String> = vec![];
    for s in &seqs {
        texts.push(s.join("\n"));
        texts.push(s.join("\n") + "\n");
    }
    texts.sort();
    texts.dedup();
    let out = std::io::stdout();
    let mut out = std::io::BufWriter::new(out.lock());
    let mut rng = seed.wrapping_mul(0x9E37_79B9_7F4A_7C15) | 1;
    let (mut n, mut matched, mut unmatched, mut outside, mut sampled) = (0u64, 0u64, 0u64, 0u64, 0u64);
    let mut scripts_seen: std::collections::HashSet<(String, usize)> = Default::default();
    for o in &texts {
        for f in &texts {
            let script = script_of(o, f);
            let ol = lines_of(o);
            let fl = lines_of(f);
            for ctx in 0..4usize {
                n += 1;
                let real = verif::make_diff(o, f, ctx);
                let mut drift = false;
                match table.get(&(script.clone(), ctx)) {
                    Some(pred) => {
                        scripts_seen.insert((script.clone(), ctx));
                        // map predicted indices to texts and compare
                        let pred_h: Vec<(u64, u64, Vec<(String, String)>)> = pred
                            .as_array()
                            .unwrap()
                            .iter()
                            .map(|h| {
                                (
                                    h["ln"].as_u64().unwrap(),
                                    h["lno"].as_u64().unwrap(),
                                    h["lines"]
                                        .as_array()
                                        .unwrap()
                                        .iter()
                                        .map(|l| {
                                            let t = l[0].as_str().unwrap().to_owned();
                                            let i = l[1].as_u64().unwrap() as usize - 1;
                                            let s = if t == "E" { fl[i].clone() } else { ol[i].clone() };
                                            (t, s)
                                        })
                                        .collect(),
                                )
                            })
                            .collect();
                        let real_h: Vec<(u64, u64, Vec<(String, String)>)> = real
                            .iter()
                            .map(|(a, b, l)| {
                                (
                                    *a as u64,
                                    *b as u64,
                                    l.iter().map(|(t, s)| (t.to_string(), s.clone())).collect(),
                                )
                            })
                            .collect();
                        if pred_h == real_h {
                            matched += 1;
                        } else {
                            unmatched += 1;
                            drift = true;
                        }
                    }
                    None => outside += 1,
                }
                let pick = xorshift(&mut rng) % 1000 < per_mille;
                if drift || pick {
                    sampled += 1;
                    let mut rec = observe(o, f, ctx, ctx == 0);
                    rec["drift"] = json!(drift);
                    rec["o"] = json!(o);
                    rec["f"] = json!(f);
                    writeln!(out, "{}", rec).unwrap();
                }
            }
        }
    }
    writeln!(
        out,
        "{}",
        json!({"summary": true, "evaluations": n, "matched": matched, "unmatched": unmatched,
               "outside_table": outside, "sampled": sampled, "texts": texts.len(),
               "distinct_scripts": scripts_seen.len()})
    )
    .unwrap();
}

/// makediff-pairs: reads NDJSON {"o":..,"f":..} from stdin, prints observation
/// records for ctx 0..3 (emitters at ctx 0).
fn makediff_pairs(_args: &[String]) {
    let stdin = std::io::stdin();
    let out = std::io::stdout();
    let mut out = std::io::BufWriter::new(out.lock());
    for line in stdin.lock().lines() {
        let v: Value = serde_json::from_str(&line.unwrap()).unwrap();
        let (o, f) = (v["o"].as_str().unwrap(), v["f"].as_str().unwrap());
        for ctx in 0..4usize {
            let mut rec = observe(o, f, ctx, ctx == 0);
            rec["o"] = json!(o);
            rec["f"] = json!(f);
            rec["name"] = v["name"].clone();
            writeln!(out, "{}", rec).unwrap();
        }
    }
}


// ---------------------------------------------------------------------------
// C07: the line scanner on enumerated texts built from classified symbols.
// ---------------------------------------------------------------------------

/// One line: leading blanks, code, an optional string literal, an optional
/// line comment or trailing blanks.  Returns (text without LF, symbols, LF symbol).
fn line_shapes() -> Vec<(String, Vec<&'static str>, &'static str)> {
    let mut out = vec![];
    for lead in ["", "\t", " "] {
        // code: number of code characters; 10 + n = n characters, a tab that is NOT on a tab
        // stop, one more character
        for code in [0usize, 1, 2, 3, 11, 12] {
            // strlen 4 / com 5: a tab inside the string / comment, followed by a character
            for strlen in [0usize, 3, 4] {
                for com in [0usize, 3, 4, 5] {
                    for trail in ["", " ", "  ", "\t"] {
                        let mut text = String::new();
                        let mut syms: Vec<&'static str> = vec![];
                        for c in lead.chars() {
                            text.push(c);
                            syms.push(if c == '\t' { "tab" } else { "sp" });
                        }
                        for _ in 0..code % 10 {
                            text.push('x');
                            syms.push("x");
                        }
                        if code >= 10 {
                            text.push('\t');
                            syms.push("tab");
                            text.push('x');
                            syms.push("x");
                        }
                        if strlen > 0 {
                            text.push('"');
                            syms.push("q");
                            if strlen == 4 {
                                text.push('\t');
                                syms.push("qtab");
                            }
                            text.push('s');
                            syms.push("q");
                            text.push('"');
                            syms.push("q");
                        }
                        let mut lf = "lf";
                        if com > 0 {
                            text.push_str("//");
                            syms.push("k");
                            syms.push("k");
                            if com == 5 {
                                text.push('\t');
                                syms.push("ktab");
                            }
                            for _ in 0..(if com == 5 { 1 } else { com - 2 }) {
                                text.push('c');
                                syms.push("k");
                            }
                            for c in trail.chars() {
                                text.push(c);
                                syms.push(if c == '\t' { "ktab" } else { "ksp" });
                            }
                            lf = "lfk";
                        } else {
                            for c in trail.chars() {
                                text.push(c);
                                syms.push(if c == '\t' { "tab" } else { "sp" });
                            }
                        }
                        out.push((text, syms, lf));
                    }
                }
            }
        }
    }
    out
}

/// linescan <seed> <n_multi>: every single-line text x every configuration, plus
/// n_multi seed-selected 2..3-line texts with skipped ranges / line selections.
fn linescan(args: &[String]) {
    use rustfmt_nightly::{FileLines, FileName, Range};
    let seed: u64 = args[0].parse().unwrap();
    let n_multi: usize = args[1].parse().unwrap();
    let shapes = line_shapes();
    let out = std::io::stdout();
    let mut out = std::io::BufWriter::new(out.lock());
    let mut rng = seed.wrapping_mul(0x9E37_79B9_7F4A_7C15) | 1;
    let name = FileName::Stdin;
    let mut emit = |lines: &[usize], mw: usize, ts: usize, eoo: bool, eou: bool,
                    skipped: Vec<(usize, usize)>, sel: Option<Vec<usize>>, extra_nl: usize| {
        let mut text = String::new();
        let mut syms: Vec<&str> = vec![];
        for &i in lines {
            text.push_str(&shapes[i].0);
            text.push('\n');
            syms.extend(shapes[i].1.iter());
            syms.push(shapes[i].2);
        }
        for _ in 0..extra_nl {
            text.push('\n');
            syms.push("lf");
        }
        let mut config = Config::default();
        config.set().max_width(mw);
        config.set().tab_spaces(ts);
        config.set().error_on_line_overflow(eoo);
        config.set().error_on_unformatted(eou);
        if let Some(ref sel) = sel {
            let mut m = HashMap::new();
            m.insert(name.clone(), sel.iter().map(|&n| Range::new(n, n)).collect::<Vec<_>>());
            config.set().file_lines(FileLines::from_ranges(m));
        }
        let (res, reports) = verif::format_lines(&text, &name, &skipped, &config);
        let tail = |s: &str| s.len() - s.trim_end_matches('\n').len();
        let rec = json!({
            "cfg": {"mw": mw, "ts": ts, "eoo": eoo, "eou": eou},
            "syms": syms, "skipped": skipped.iter().map(|(a, b)| json!([a, b])).collect::<Vec<_>>(),
            "sel_all": sel.is_none(), "sel": sel.clone().unwrap_or_default(),
            "reports": reports.iter().map(|(l, k)| json!([l, k])).collect::<Vec<_>>(),
            "tail_in": tail(&text), "tail_out": tail(&res), "text": text,
        });
        writeln!(out, "{}", rec).unwrap();
    };
    for i in 0..shapes.len() {
        for mw in [4usize, 6, 9] {
            for ts in [1usize, 2, 4] {
                for (eoo, eou) in [(true, true), (true, false), (false, true), (false, false)] {
                    emit(&[i], mw, ts, eoo, eou, vec![], None, 0);
                }
            }
        }
    }
    for _ in 0..n_multi {
        let k = 2 + (xorshift(&mut rng) % 3) as usize;
        let lines: Vec<usize> = (0..k).map(|_| (xorshift(&mut rng) % shapes.len() as u64) as usize).collect();
        let mw = 3 + (xorshift(&mut rng) % 5) as usize;
        let ts = 1 + (xorshift(&mut rng) % 8) as usize;
        let eoo = xorshift(&mut rng) % 4 != 0;
        let eou = xorshift(&mut rng) % 2 == 0;
        // the scanner receives the ranges in the order the formatter recorded them,
        // which is not the order of the lines
        let skipped = match xorshift(&mut rng) % 8 {
            0 => vec![(1, 1)],
            1 => vec![(2, 3)],
            2 => vec![(2, 1)],
            3 => vec![(3, 3), (2, 2)],
            4 => vec![(2, 4), (1, 1)],
            5 => vec![(3, 3), (1, 1), (2, 2)],
            6 => vec![(1, 2), (2, 3)],
            _ => vec![],
        };
        let sel = match xorshift(&mut rng) % 4 {
            0 => Some(vec![1]),
            1 => Some(vec![2, 3]),
            2 => Some(vec![]),
            _ => None,
        };
        let extra = (xorshift(&mut rng) % 3) as usize;
        emit(&lines, mw, ts, eoo, eou, skipped, sel, extra);
    }
}


// ---------------------------------------------------------------------------
// C08: apply_newline_style on every text over {c, CR, LF} up to a length.
// ---------------------------------------------------------------------------
fn newline(args: &[String]) {
    use rustfmt_nightly::NewlineStyle;
    let max: usize = args[0].parse().unwrap();
    let out = std::io::stdout();
    let mut out = std::io::BufWriter::new(out.lock());
    let syms = ["c", "cr", "lf"];
    let render = |t: &[usize]| -> String {
        t.iter().map(|&i| ['x', '\r', '\n'][i]).collect()
    };
    let abstr = |s: &str| -> Vec<&'static str> {
        s.chars()
            .map(|c| match c {
                '\r' => "cr",
                '\n' => "lf",
                _ => "c",
            })
            .collect()
    };
    let mut texts: Vec<Vec<usize>> = vec![vec![]];
    let mut frontier: Vec<Vec<usize>> = vec![vec![]];
    for _ in 0..max {
        let mut next = vec![];
        for t in &frontier {
            for i in 0..3 {
                let mut u = t.clone();
                u.push(i);
                next.push(u);
            }
        }
        texts.extend(next.iter().cloned());
        frontier = next;
    }
    // (the last two: a first line that ends in CR CR LF, a lone CR before the first LF)
    let raws = ["", "x\n", "x\r\n", "\n", "\r\nx\n", "xx", "x\ny\r\n", "x\r\r\ny\n", "\rx\r\n"];
    for (n, t) in texts.iter().enumerate() {
        let text = render(t);
        let raw = raws[n % raws.len()];
        let win = verif::apply_newline_style(NewlineStyle::Windows, &text, raw);
        let unix = verif::apply_newline_style(NewlineStyle::Unix, &text, raw);
        let auto = verif::apply_newline_style(NewlineStyle::Auto, &text, raw);
        let native = verif::apply_newline_style(NewlineStyle::Native, &text, raw);
        writeln!(
            out,
            "{}",
            json!({"text": t.iter().map(|&i| syms[i]).collect::<Vec<_>>(), "win": abstr(&win),
                   "unix": abstr(&unix), "auto_out": abstr(&auto), "native": abstr(&native),
                   "windows_host": cfg!(windows), "raw": abstr(raw)})
        )
        .unwrap();
    }
}


// ---------------------------------------------------------------------------
// C17: the FileLines range algebra, constructed both from ranges and from the
// `--file-lines` JSON form.
// ---------------------------------------------------------------------------
fn filelines(args: &[String]) {
    use rustfmt_nightly::{FileLines, FileName, Range};
    let max_line: usize = args[0].parse().unwrap();
    let max_ranges: usize = args[1].parse().unwrap();
    let out = std::io::stdout();
    let mut out = std::io::BufWriter::new(out.lock());
    let mut all: Vec<(usize, usize)> = vec![];
    for a in 0..=max_line {
        for b in 0..=max_line {
            all.push((a, b));
        }
    }
    let mut sels: Vec<Vec<(usize, usize)>> = vec![vec![]];
    let mut frontier: Vec<Vec<(usize, usize)>> = vec![vec![]];
    for _ in 0..max_ranges {
        let mut next = vec![];
        for s in &frontier {
            for r in &all {
                let mut t = s.clone();
                t.push(*r);
                next.push(t);
            }
        }
        sels.extend(next.iter().cloned());
        frontier = next;
    }
    let name = FileName::Stdin;
    for (n, sel) in sels.iter().enumerate() {
        if sel.is_empty() {
            continue;
        }
        let fl = if n % 2 == 0 {
            let mut m = HashMap::new();
            m.insert(name.clone(), sel.iter().map(|(a, b)| Range::new(*a, *b)).collect::<Vec<_>>());
            FileLines::from_ranges(m)
        } else {
            // every other time the spans of this file are INTERLEAVED with spans that name another
            // file: the order of the spans of a selection carries no meaning
            let mut spans = vec![];
            for (k, (a, b)) in sel.iter().enumerate() {
                spans.push(json!({"file": "stdin", "range": [a, b]}));
                if n % 4 == 3 {
                    // (a file named in a selection has to exist: any existing file will do)
                    let other = std::env::current_exe().unwrap();
                    spans.push(json!({"file": other.to_str().unwrap(), "range": [k + 1, k + 2]}));
                }
            }
            json!(spans).to_string().parse::<FileLines>().unwrap()
        };
        let norm = verif::file_lines_ranges(&fl, &name);
        let mut q = vec![];
        for lo in 0..=max_line {
            for hi in lo..=max_line {
                let (c, i, lines) = verif::file_lines_query(&fl, &name, lo, hi);
                q.push(json!({"lo": lo, "hi": hi, "contains": c, "intersects": i, "lines": lines}));
            }
        }
        writeln!(
            out,
            "{}",
            json!({"kind": "algebra", "sel": sel.iter().map(|(a, b)| json!([a, b])).collect::<Vec<_>>(),
                   "norm": norm.iter().map(|(a, b)| json!([a, b])).collect::<Vec<_>>(), "q": q})
        )
        .unwrap();
    }
}


// ---------------------------------------------------------------------------
// C11: table of the real version_sort over names read from stdin (JSON array).
// ---------------------------------------------------------------------------
fn versionsort() {
    let mut input = String::new();
    std::io::Read::read_to_string(&mut std::io::stdin(), &mut input).unwrap();
    let names: Vec<String> = serde_json::from_str(&input).unwrap();
    let table: Vec<Vec<&str>> = names
        .iter()
        .map(|a| {
            names
                .iter()
                .map(|b| match verif::version_sort(a, b) {
                    std::cmp::Ordering::Less => "L",
                    std::cmp::Ordering::Equal => "E",
                    std::cmp::Ordering::Greater => "G",
                })
                .collect()
        })
        .collect();
    println!("{}", json!({"kind": "cmp", "table": table}));
}

/// C03 / spec/CommentKind.tla: the real rustc_lexer and the real comment_style on a list of
/// comment texts.
fn commentkind() {
    let mut input = String::new();
    std::io::Read::read_to_string(&mut std::io::stdin(), &mut input).unwrap();
    let texts: Vec<String> = serde_json::from_str(&input).unwrap();
    let out: Vec<Value> = texts
        .iter()
        .map(|t| {
            let tok = rustc_lexer::tokenize(t).next();
            let (is_comment, lexdoc) = match tok.map(|t| t.kind) {
                Some(rustc_lexer::TokenKind::LineComment { doc_style }) => (true, doc_style.is_some()),
                Some(rustc_lexer::TokenKind::BlockComment { doc_style, .. }) => {
                    (true, doc_style.is_some())
                }
                _ => (false, false),
            };
            let (s0, d0) = verif::comment_style_name(t, false);
            let (s1, d1) = verif::comment_style_name(t, true);
            json!({"comment": is_comment, "lexdoc": lexdoc, "style0": s0, "isdoc0": d0,
                   "style1": s1, "isdoc1": d1})
        })
        .collect();
    println!("{}", json!(out));
}
