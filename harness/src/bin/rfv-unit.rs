#![feature(rustc_private)]
extern crate rustc_driver;
fn main() {
    let d = rustfmt_nightly::verif::make_diff("a\nb\n", "a\nc\n", 1);
    println!("{}", serde_json::to_string(&d).unwrap());
}
