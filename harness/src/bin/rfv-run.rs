//! In-process universe driver: a persistent worker that reads one JSON job per
//! line on stdin, formats it with the library built from /repo's working tree,
//! and answers with one JSON line.  Projections (lexing, parsing, pretty
//! printing) come from the toolchain's own crates, never from rustfmt.
//!
//! job: {"id":.., "src": text, "opts": {key: val,..}, "file_lines": [[lo,hi]..]|null,
//!       "want": ["out","lex","ast","syms","tokens","comments"], "name": "x.rs"}
#![feature(rustc_private)]
extern crate rustc_ast;
extern crate rustc_ast_pretty;
extern crate rustc_driver;
extern crate rustc_errors;
extern crate rustc_lexer;
extern crate rustc_parse;
extern crate rustc_session;
extern crate rustc_span;

use std::collections::HashMap;
use std::io::{BufRead, Write};
use std::panic::{AssertUnwindSafe, catch_unwind};
use std::path::PathBuf;
use std::sync::Mutex;
use std::time::Instant;

use rustfmt_nightly::verif;
use rustfmt_nightly::{
    Config, EmitMode, FileLines, FileName, FormatReportFormatterBuilder, Input, Range, Session,
    Verbosity,
};
use serde_json::{Value, json};

static LAST_PANIC: Mutex<Option<String>> = Mutex::new(None);

fn main() {
    std::panic::set_hook(Box::new(|info| {
        let loc = info
            .location()
            .map(|l| format!("{}:{}", l.file(), l.line()))
            .unwrap_or_default();
        let msg = info
            .payload()
            .downcast_ref::<&str>()
            .map(|s| s.to_string())
            .or_else(|| info.payload().downcast_ref::<String>().cloned())
            .unwrap_or_else(|| "<non-string payload>".to_owned());
        *LAST_PANIC.lock().unwrap_or_else(|e| e.into_inner()) = Some(format!("{loc}: {msg}"));
    }));
    let scratch = PathBuf::from(
        std::env::var("RFV_SCRATCH").unwrap_or_else(|_| "/var/tmp".to_owned()),
    )
    .join(format!("rfv-run-{}", std::process::id()));
    std::fs::create_dir_all(&scratch).unwrap();
    let stdin = std::io::stdin();
    let stdout = std::io::stdout();
    for line in stdin.lock().lines() {
        let Ok(line) = line else { break };
        if line.trim().is_empty() {
            continue;
        }
        let job: Value = match serde_json::from_str(&line) {
            Ok(v) => v,
            Err(e) => {
                let mut o = stdout.lock();
                writeln!(o, "{}", json!({"error": format!("bad job: {e}")})).unwrap();
                o.flush().unwrap();
                continue;
            }
        };
        let res = handle(&job, &scratch);
        let mut o = stdout.lock();
        writeln!(o, "{}", res).unwrap();
        o.flush().unwrap();
    }
    let _ = std::fs::remove_dir_all(&scratch);
}

fn wants(job: &Value, what: &str) -> bool {
    job["want"]
        .as_array()
        .map(|a| a.iter().any(|x| x.as_str() == Some(what)))
        .unwrap_or(false)
}

fn handle(job: &Value, scratch: &PathBuf) -> Value {
    let src = job["src"].as_str().unwrap_or("").to_owned();
    let name = job["name"].as_str().unwrap_or("input.rs");
    let path = scratch.join(name);
    if let Some(parent) = path.parent() {
        let _ = std::fs::create_dir_all(parent);
    }
    std::fs::write(&path, &src).unwrap();
    let mut config = Config::default();
    let mut bad_opts = vec![];
    if let Some(opts) = job["opts"].as_object() {
        // fixed (sorted) application order
        let mut keys: Vec<&String> = opts.keys().collect();
        keys.sort();
        for k in keys {
            let v = match &opts[k] {
                Value::String(s) => s.clone(),
                other => other.to_string(),
            };
            if Config::is_valid_key_val(k, &v) {
                config.override_value(k, &v);
            } else {
                bad_opts.push(format!("{k}={v}"));
            }
        }
    }
    config.set().emit_mode(EmitMode::Stdout);
    config.set().verbose(Verbosity::Quiet);
    let canon = path.canonicalize().unwrap_or(path.clone());
    if let Some(fl) = job["file_lines"].as_array() {
        let mut m = HashMap::new();
        m.insert(
            FileName::Real(canon.clone()),
            fl.iter()
                .map(|r| Range::new(r[0].as_u64().unwrap() as usize, r[1].as_u64().unwrap() as usize))
                .collect::<Vec<_>>(),
        );
        config.set().file_lines(FileLines::from_ranges(m));
    }
    *LAST_PANIC.lock().unwrap() = None;
    let t0 = Instant::now();
    let mut out: Vec<u8> = Vec::new();
    let mut res = json!({"id": job["id"], "bad_opts": bad_opts});
    let fmt = catch_unwind(AssertUnwindSafe(|| {
        let mut session = Session::new(config, Some(&mut out));
        let r = session.format(Input::File(canon.clone()));
        let mut o = json!({});
        match r {
            Ok(report) => {
                o["ok"] = json!(true);
                o["entries"] = json!(
                    verif::report_entries(&report)
                        .into_iter()
                        .map(|(_, l, k)| json!([l, k]))
                        .collect::<Vec<_>>()
                );
                o["flags"] = json!(verif::report_flags(&report).to_vec());
                o["ranges"] = json!(
                    verif::non_formatted_ranges(&report)
                        .into_iter()
                        .map(|(a, b)| json!([a, b]))
                        .collect::<Vec<_>>()
                );
                // render the report exactly as `rustfmt` does before exiting
                let rendered = catch_unwind(AssertUnwindSafe(|| {
                    if report.has_warnings() {
                        FormatReportFormatterBuilder::new(&report).build().to_string()
                    } else {
                        String::new()
                    }
                }));
                match rendered {
                    Ok(s) => o["rendered_len"] = json!(s.len()),
                    Err(_) => o["render_panic"] = json!(true),
                }
            }
            Err(e) => {
                o["ok"] = json!(false);
                o["err"] = json!(e.to_string());
            }
        }
        o["session"] = json!({
            "operational": session.has_operational_errors(),
            "parsing": session.has_parsing_errors(),
            "formatting": session.has_formatting_errors(),
            "check": session.has_check_errors(),
            "diff": session.has_diff(),
            "unformatted": session.has_unformatted_code_errors(),
        });
        o
    }));
    res["ms"] = json!(t0.elapsed().as_millis() as u64);
    match fmt {
        Ok(o) => {
            for (k, v) in o.as_object().unwrap() {
                res[k] = v.clone();
            }
        }
        Err(_) => {
            res["ok"] = json!(false);
            res["panic"] = json!(
                LAST_PANIC
                    .lock()
                    .unwrap_or_else(|e| e.into_inner())
                    .clone()
                    .unwrap_or_default()
            );
        }
    }
    if res.get("panic").is_none() {
        if let Some(p) = LAST_PANIC.lock().unwrap_or_else(|e| e.into_inner()).clone() {
            res["caught_panic"] = json!(p); // a contained panic (parser / macro / snippet)
        }
    }
    let out_text = String::from_utf8_lossy(&out).into_owned();
    if wants(job, "out") {
        res["out"] = json!(out_text);
    }
    res["out_h"] = json!(verif::fnv(out_text.as_bytes()));
    res["out_len"] = json!(out_text.len());
    if wants(job, "syms") {
        res["syms"] = json!(line_symbols(&out_text));
    }
    if wants(job, "lex") {
        res["lex_in"] = lex_summary(&src);
        res["lex_out"] = lex_summary(&out_text);
    }
    let _ = std::fs::remove_file(&path);
    res
}

/// Classify every character of `text` with rustc_lexer and map it to the
/// symbols of spec/LineScanCore.tla.
fn line_symbols(text: &str) -> Vec<&'static str> {
    use rustc_lexer::{LiteralKind, TokenKind};
    let mut syms = Vec::with_capacity(text.len());
    let mut pos = 0usize;
    let mut last_line_comment = false;
    for tok in rustc_lexer::tokenize(text) {
        let s = &text[pos..pos + tok.len as usize];
        pos += tok.len as usize;
        let class = match tok.kind {
            TokenKind::LineComment { .. } | TokenKind::BlockComment { .. } => 'k',
            TokenKind::Literal { kind, .. } => match kind {
                LiteralKind::Str { .. }
                | LiteralKind::ByteStr { .. }
                | LiteralKind::CStr { .. }
                | LiteralKind::RawStr { .. }
                | LiteralKind::RawByteStr { .. }
                | LiteralKind::RawCStr { .. } => 'q',
                _ => 'x',
            },
            _ => 'x',
        };
        for c in s.chars() {
            let sym = match (c, class) {
                ('\n', 'k') => "lfk",
                ('\n', _) => {
                    if last_line_comment {
                        "lfk"
                    } else {
                        "lf"
                    }
                }
                ('\r', _) => "cr",
                ('\t', 'k') => "ktab",
                ('\t', 'q') => "qtab",
                ('\t', _) => "tab",
                (c, 'k') if c.is_whitespace() => "ksp",
                (c, 'q') if c.is_whitespace() => "qsp",
                (c, _) if c.is_whitespace() => "sp",
                (_, 'k') => "k",
                (_, 'q') => "q",
                _ => "x",
            };
            syms.push(sym);
        }
        last_line_comment = matches!(tok.kind, TokenKind::LineComment { .. });
    }
    syms
}

fn lex_summary(text: &str) -> Value {
    use rustc_lexer::TokenKind;
    let mut pos = 0usize;
    let mut comments = vec![];
    let mut n_tokens = 0usize;
    for tok in rustc_lexer::tokenize(text) {
        let s = &text[pos..pos + tok.len as usize];
        pos += tok.len as usize;
        match tok.kind {
            TokenKind::LineComment { doc_style: None } | TokenKind::BlockComment { doc_style: None, .. } => {
                comments.push(s.to_owned())
            }
            TokenKind::Whitespace => {}
            _ => n_tokens += 1,
        }
    }
    json!({"comments": comments, "n_tokens": n_tokens})
}
