//! In-process universe driver: a persistent worker that reads one JSON job per
//! line on stdin, formats it with the library built from /repo's working tree,
//! and answers with one JSON line.  Projections (lexing, parsing, pretty
//! printing) come from the toolchain's own crates, never from rustfmt.
//!
//! job: {"id":.., "src": text, "opts": {key: val,..}, "file_lines": [[lo,hi]..]|null,
//!       "want": ["out","lex","ast","syms","tokens","comments"], "name": "x.rs"}
#![feature(rustc_private)]
extern crate rustc_ast;
extern crate rustc_ast_pretty;
extern crate rustc_driver;
extern crate rustc_errors;
extern crate rustc_lexer;
extern crate rustc_parse;
extern crate rustc_session;
extern crate rustc_span;

use std::collections::HashMap;
use std::io::{BufRead, Write};
use std::panic::{AssertUnwindSafe, catch_unwind};
use std::path::PathBuf;
use std::sync::Mutex;
use std::time::Instant;

use rustfmt_nightly::verif;
use rustfmt_nightly::{
    CliOptions, Config, Edition, EmitMode, FileLines, FileName, FormatReportFormatterBuilder,
    Input, Range, Session, StyleEdition, Verbosity, Version, load_config,
};
use serde_json::{Value, json};

static LAST_PANIC: Mutex<Option<String>> = Mutex::new(None);

fn main() {
    std::panic::set_hook(Box::new(|info| {
        let loc = info
            .location()
            .map(|l| format!("{}:{}", l.file(), l.line()))
            .unwrap_or_default();
        let msg = info
            .payload()
            .downcast_ref::<&str>()
            .map(|s| s.to_string())
            .or_else(|| info.payload().downcast_ref::<String>().cloned())
            .unwrap_or_else(|| "<non-string payload>".to_owned());
        *LAST_PANIC.lock().unwrap_or_else(|e| e.into_inner()) = Some(format!("{loc}: {msg}"));
    }));
    let scratch = PathBuf::from(
        std::env::var("RFV_SCRATCH").unwrap_or_else(|_| "/var/tmp".to_owned()),
    )
    .join(format!("rfv-run-{}", std::process::id()));
    std::fs::create_dir_all(&scratch).unwrap();
    let stdin = std::io::stdin();
    let stdout = std::io::stdout();
    for line in stdin.lock().lines() {
        let Ok(line) = line else { break };
        if line.trim().is_empty() {
            continue;
        }
        let job: Value = match serde_json::from_str(&line) {
            Ok(v) => v,
            Err(e) => {
                let mut o = stdout.lock();
                writeln!(o, "{}", json!({"error": format!("bad job: {e}")})).unwrap();
                o.flush().unwrap();
                continue;
            }
        };
        let res = handle(&job, &scratch);
        let mut o = stdout.lock();
        writeln!(o, "{}", res).unwrap();
        o.flush().unwrap();
    }
    let _ = std::fs::remove_dir_all(&scratch);
}

fn wants(job: &Value, what: &str) -> bool {
    job["want"]
        .as_array()
        .map(|a| a.iter().any(|x| x.as_str() == Some(what)))
        .unwrap_or(false)
}

/// The options a front end resolves BEFORE the configuration file is read (what
/// `rustfmt --edition .. --style-edition .. --config version=..` hands to `load_config`).
struct FrontOpts {
    path: Option<PathBuf>,
    edition: Option<Edition>,
    style_edition: Option<StyleEdition>,
    version: Option<Version>,
}

impl CliOptions for FrontOpts {
    fn apply_to(self, config: &mut Config) {
        if let Some(e) = self.edition {
            config.set_cli().edition(e);
        }
        if let Some(e) = self.style_edition {
            config.set_cli().style_edition(e);
        }
    }
    fn config_path(&self) -> Option<&std::path::Path> {
        self.path.as_deref()
    }
    fn edition(&self) -> Option<Edition> {
        self.edition
    }
    fn style_edition(&self) -> Option<StyleEdition> {
        self.style_edition
    }
    fn version(&self) -> Option<Version> {
        self.version
    }
}

fn handle(job: &Value, scratch: &PathBuf) -> Value {
    let mut src = job["src"].as_str().unwrap_or("").to_owned();
    if let Some(seed) = job["relayout"].as_u64() {
        src = relayout(&src, seed);
    }
    if let Some(seed) = job["mutate"].as_u64() {
        src = mutate(&src, seed);
    }
    let name = job["name"].as_str().unwrap_or("input.rs");
    let path = scratch.join(name);
    if let Some(parent) = path.parent() {
        let _ = std::fs::create_dir_all(parent);
    }
    std::fs::write(&path, &src).unwrap();
    // out-of-line modules of the input: {"relative/path.rs": text}
    let mut extra_files: Vec<PathBuf> = vec![];
    if let Some(files) = job["files"].as_object() {
        for (rel, text) in files {
            let p = scratch.join(rel);
            if let Some(parent) = p.parent() {
                let _ = std::fs::create_dir_all(parent);
            }
            std::fs::write(&p, text.as_str().unwrap_or("")).unwrap();
            extra_files.push(p);
        }
    }
    let mut config = Config::default();
    let mut bad_opts = vec![];
    if job.get("toml").is_some() || job.get("cli").is_some() {
        // the configuration as a front end resolves it: a configuration FILE (`toml`) and the
        // three options that take part in choosing the defaults (`cli`: edition,
        // style_edition, version), through the public `load_config`
        use std::str::FromStr;
        let dir = scratch.join(format!("cfg-{}", job["id"].as_u64().unwrap_or(0)));
        let _ = std::fs::create_dir_all(&dir);
        let file = dir.join("rustfmt.toml");
        std::fs::write(&file, job["toml"].as_str().unwrap_or("")).unwrap();
        let cli = &job["cli"];
        let fo = FrontOpts {
            path: Some(file),
            edition: cli["edition"].as_str().and_then(|x| Edition::from_str(x).ok()),
            style_edition: cli["style_edition"]
                .as_str()
                .and_then(|x| StyleEdition::from_str(x).ok()),
            version: cli["version"].as_str().and_then(|x| Version::from_str(x).ok()),
        };
        match load_config(None, Some(fo)) {
            Ok((c, _)) => config = c,
            Err(e) => {
                return json!({"id": job["id"], "ok": false, "err": format!("config: {e}"),
                              "bad_opts": bad_opts});
            }
        }
    }
    if let Some(opts) = job["opts"].as_object() {
        // fixed (sorted) application order
        let mut keys: Vec<&String> = opts.keys().collect();
        keys.sort();
        for k in keys {
            let v = match &opts[k] {
                Value::String(s) => s.clone(),
                other => other.to_string(),
            };
            if Config::is_valid_key_val(k, &v) {
                config.override_value(k, &v);
            } else {
                bad_opts.push(format!("{k}={v}"));
            }
        }
    }
    if wants(job, "config_toml") {
        // the effective configuration when the options come through the API
        return json!({"id": job["id"], "config_toml": config.all_options().to_toml().unwrap_or_default(),
                      "bad_opts": bad_opts});
    }
    config.set().emit_mode(EmitMode::Stdout);
    config.set().verbose(Verbosity::Quiet);
    let canon = path.canonicalize().unwrap_or(path.clone());
    if let Some(fl) = job["file_lines"].as_array() {
        let mut m = HashMap::new();
        m.insert(
            FileName::Real(canon.clone()),
            fl.iter()
                .map(|r| Range::new(r[0].as_u64().unwrap() as usize, r[1].as_u64().unwrap() as usize))
                .collect::<Vec<_>>(),
        );
        config.set().file_lines(FileLines::from_ranges(m));
    }
    *LAST_PANIC.lock().unwrap() = None;
    let t0 = Instant::now();
    let mut out: Vec<u8> = Vec::new();
    let mut res = json!({"id": job["id"], "bad_opts": bad_opts});
    let fmt = catch_unwind(AssertUnwindSafe(|| {
        let mut session = Session::new(config, Some(&mut out));
        let r = session.format(Input::File(canon.clone()));
        let mut o = json!({});
        match r {
            Ok(report) => {
                o["ok"] = json!(true);
                o["entries"] = json!(
                    verif::report_entries(&report)
                        .into_iter()
                        .map(|(_, l, k)| json!([l, k]))
                        .collect::<Vec<_>>()
                );
                o["flags"] = json!(verif::report_flags(&report).to_vec());
                o["ranges"] = json!(
                    verif::non_formatted_ranges(&report)
                        .into_iter()
                        .map(|(a, b)| json!([a, b]))
                        .collect::<Vec<_>>()
                );
                // render the report exactly as `rustfmt` does before exiting
                let rendered = catch_unwind(AssertUnwindSafe(|| {
                    if report.has_warnings() {
                        FormatReportFormatterBuilder::new(&report).build().to_string()
                    } else {
                        String::new()
                    }
                }));
                match rendered {
                    Ok(s) => o["rendered_len"] = json!(s.len()),
                    Err(_) => o["render_panic"] = json!(true),
                }
            }
            Err(e) => {
                o["ok"] = json!(false);
                o["err"] = json!(e.to_string());
            }
        }
        o["session"] = json!({
            "operational": session.has_operational_errors(),
            "parsing": session.has_parsing_errors(),
            "formatting": session.has_formatting_errors(),
            "check": session.has_check_errors(),
            "diff": session.has_diff(),
            "unformatted": session.has_unformatted_code_errors(),
        });
        o
    }));
    res["ms"] = json!(t0.elapsed().as_millis() as u64);
    match fmt {
        Ok(o) => {
            for (k, v) in o.as_object().unwrap() {
                res[k] = v.clone();
            }
        }
        Err(_) => {
            res["ok"] = json!(false);
            res["panic"] = json!(
                LAST_PANIC
                    .lock()
                    .unwrap_or_else(|e| e.into_inner())
                    .clone()
                    .unwrap_or_default()
            );
        }
    }
    if res.get("panic").is_none() {
        if let Some(p) = LAST_PANIC.lock().unwrap_or_else(|e| e.into_inner()).clone() {
            res["caught_panic"] = json!(p); // a contained panic (parser / macro / snippet)
        }
    }
    let out_text = String::from_utf8_lossy(&out).into_owned();
    if wants(job, "out") {
        res["out"] = json!(out_text);
    }
    if wants(job, "src") {
        res["src"] = json!(src);
    }
    res["src_h"] = json!(verif::fnv(src.as_bytes()));
    res["out_h"] = json!(verif::fnv(out_text.as_bytes()));
    res["out_len"] = json!(out_text.len());
    if wants(job, "syms") {
        res["syms"] = json!(line_symbols(&out_text));
    }
    if wants(job, "lines") {
        res["lines"] = line_records(&out_text);
        res["ws"] = ws_summary(&out_text);
    }
    if wants(job, "uses") {
        let ed = job["opts"]["edition"].as_str().unwrap_or("2015").to_owned();
        res["uses_in"] = uses_projection(&src, &ed);
        res["uses_out"] = uses_projection(&out_text, &ed);
    }
    if wants(job, "ledger") {
        let ed = job["opts"]["edition"].as_str().unwrap_or("2015").to_owned();
        res["ledger"] = ledger(&src, &out_text, &ed);
    }
    if wants(job, "slots") {
        let ed = job["opts"]["edition"].as_str().unwrap_or("2015").to_owned();
        res["slots"] = slots(&src, &ed);
    }
    if wants(job, "lex") {
        res["lex_in"] = lex_summary(&src);
        res["lex_out"] = lex_summary(&out_text);
    }
    let _ = std::fs::remove_file(&path);
    for p in extra_files {
        let _ = std::fs::remove_file(&p);
    }
    res
}

/// Classify every character of `text` with rustc_lexer and map it to the
/// symbols of spec/LineScanCore.tla.
fn line_symbols(text: &str) -> Vec<&'static str> {
    use rustc_lexer::{LiteralKind, TokenKind};
    let mut syms = Vec::with_capacity(text.len());
    let mut pos = 0usize;
    let mut last_line_comment = false;
    for tok in rustc_lexer::tokenize(text) {
        let s = &text[pos..pos + tok.len as usize];
        pos += tok.len as usize;
        let class = match tok.kind {
            TokenKind::LineComment { .. } | TokenKind::BlockComment { .. } => 'k',
            TokenKind::Literal { kind, .. } => match kind {
                LiteralKind::Str { .. }
                | LiteralKind::ByteStr { .. }
                | LiteralKind::CStr { .. }
                | LiteralKind::RawStr { .. }
                | LiteralKind::RawByteStr { .. }
                | LiteralKind::RawCStr { .. } => 'q',
                _ => 'x',
            },
            _ => 'x',
        };
        for c in s.chars() {
            let sym = match (c, class) {
                ('\n', 'k') => "lfk",
                ('\n', _) => {
                    if last_line_comment {
                        "lfk"
                    } else {
                        "lf"
                    }
                }
                ('\r', _) => "cr",
                ('\t', 'k') => "ktab",
                ('\t', 'q') => "qtab",
                ('\t', _) => "tab",
                (c, 'k') if c.is_whitespace() => "ksp",
                (c, 'q') if c.is_whitespace() => "qsp",
                (c, _) if c.is_whitespace() => "sp",
                (_, 'k') => "k",
                (_, 'q') => "q",
                _ => "x",
            };
            syms.push(sym);
        }
        last_line_comment = matches!(tok.kind, TokenKind::LineComment { .. });
    }
    syms
}

fn lex_summary(text: &str) -> Value {
    use rustc_lexer::TokenKind;
    let mut pos = 0usize;
    let mut comments = vec![];
    let mut n_tokens = 0usize;
    for tok in rustc_lexer::tokenize(text) {
        let s = &text[pos..pos + tok.len as usize];
        pos += tok.len as usize;
        match tok.kind {
            TokenKind::LineComment { doc_style: None } | TokenKind::BlockComment { doc_style: None, .. } => {
                comments.push(s.to_owned())
            }
            TokenKind::Whitespace => {}
            _ => n_tokens += 1,
        }
    }
    json!({"comments": comments, "n_tokens": n_tokens})
}


/// Whole-text facts for spec/WhitespaceObs.tla.
fn ws_summary(text: &str) -> Value {
    let b = text.as_bytes();
    let lf = b.iter().filter(|c| **c == b'\n').count();
    let crlf = b.windows(2).filter(|w| w == b"\r\n").count();
    let trimmed = text.trim_end_matches(|c| c == '\n' || c == '\r');
    let tail = &text[trimmed.len()..];
    let final_nl = tail.matches('\n').count();
    let first_line = text.split('\n').next().unwrap_or("");
    json!({
        "lf": lf, "crlf": crlf, "final_nl": final_nl,
        "nonempty": !text.trim().is_empty(),
        "lead_blank": !text.is_empty() && first_line.trim().is_empty() && text.contains('\n'),
    })
}

/// Per-line records for spec/WhitespaceObs.tla (rustc_lexer classification).
fn line_records(text: &str) -> Value {
    use rustc_lexer::TokenKind as T;
    // per byte: class ('x' code, 'k' comment, 'q' string), exempt flag, depth before the byte
    let n = text.len();
    let mut class = vec![b'x'; n];
    let mut exempt = vec![false; n];
    let mut depth_at = vec![0i32; n + 1];
    let mut toks: Vec<(T, usize, usize)> = vec![];
    let mut pos = 0usize;
    for tok in rustc_lexer::tokenize(text) {
        toks.push((tok.kind, pos, pos + tok.len as usize));
        pos += tok.len as usize;
    }
    let mut depth = 0i32;
    // macro regions and skip regions over the significant tokens
    let sig: Vec<usize> = (0..toks.len())
        .filter(|&i| !matches!(toks[i].0, T::Whitespace | T::LineComment { .. } | T::BlockComment { .. }))
        .collect();
    let mut macro_until: Option<i32> = None; // exempt until depth drops back to this value
    let mut skip_until: Option<(i32, bool)> = None; // (depth of the attribute, inner)
    let mut si = 0usize;
    for (ti, &(kind, lo, hi)) in toks.iter().enumerate() {
        let is_sig = si < sig.len() && sig[si] == ti;
        for b in lo..hi {
            depth_at[b] = depth;
            class[b] = match kind {
                T::LineComment { .. } | T::BlockComment { .. } => b'k',
                T::Literal { kind, .. } => match kind {
                    rustc_lexer::LiteralKind::Str { .. }
                    | rustc_lexer::LiteralKind::ByteStr { .. }
                    | rustc_lexer::LiteralKind::CStr { .. }
                    | rustc_lexer::LiteralKind::RawStr { .. }
                    | rustc_lexer::LiteralKind::RawByteStr { .. }
                    | rustc_lexer::LiteralKind::RawCStr { .. } => b'q',
                    _ => b'x',
                },
                _ => b'x',
            };
            exempt[b] = macro_until.is_some() || skip_until.is_some();
        }
        if !is_sig {
            continue;
        }
        let s = &text[lo..hi];
        // `name ! (` / `name ! name {` starts a macro region
        if macro_until.is_none() && matches!(kind, T::Bang) && si > 0 && si + 1 < sig.len() {
            let prev = toks[sig[si - 1]].0;
            let mut nx = si + 1;
            if matches!(toks[sig[nx]].0, T::Ident) && nx + 1 < sig.len() {
                nx += 1;
            }
            if matches!(prev, T::Ident)
                && matches!(toks[sig[nx]].0, T::OpenParen | T::OpenBrace | T::OpenBracket)
            {
                macro_until = Some(depth);
            }
        }
        // an attribute mentioning rustfmt skip
        if matches!(kind, T::Pound) && skip_until.is_none() {
            let inner = si + 1 < sig.len() && matches!(toks[sig[si + 1]].0, T::Bang);
            let mut j = si + 1;
            let mut d = 0;
            let mut textual = String::new();
            while j < sig.len() {
                let (k, a, b) = toks[sig[j]];
                textual.push_str(&text[a..b]);
                match k {
                    T::OpenBracket => d += 1,
                    T::CloseBracket => {
                        d -= 1;
                        if d == 0 {
                            break;
                        }
                    }
                    _ => {}
                }
                j += 1;
            }
            if textual.contains("rustfmt") && textual.contains("skip") {
                skip_until = Some((depth, inner));
                for b in lo..hi {
                    exempt[b] = true;
                }
            }
        }
        match kind {
            T::OpenParen | T::OpenBrace | T::OpenBracket => depth += 1,
            T::CloseParen | T::CloseBrace | T::CloseBracket => {
                depth -= 1;
                if let Some(d) = macro_until {
                    if depth <= d {
                        macro_until = None;
                    }
                }
                if let Some((d, inner)) = skip_until {
                    if (!inner && depth == d && matches!(kind, T::CloseBrace)) || depth < d {
                        skip_until = None;
                    }
                }
            }
            T::Semi => {
                if let Some((d, inner)) = skip_until {
                    if !inner && depth == d {
                        skip_until = None;
                    }
                }
                if let Some(d) = macro_until {
                    if depth <= d {
                        macro_until = None;
                    }
                }
            }
            T::Comma => {
                if let Some((d, inner)) = skip_until {
                    if !inner && depth == d {
                        skip_until = None;
                    }
                }
            }
            _ => {}
        }
        let _ = s;
        si += 1;
    }
    depth_at[n] = depth;
    let mut out = vec![];
    let mut start = 0usize;
    let bytes = text.as_bytes();
    while start < n {
        let end = bytes[start..].iter().position(|c| *c == b'\n').map(|p| start + p).unwrap_or(n);
        let line = &text[start..end];
        let line = line.strip_suffix('\r').unwrap_or(line);
        let mut lead = vec![];
        let mut cls = "blank";
        let mut any_exempt = false;
        let starts_other = class[start] != b'x' && start > 0 && class[start - 1] == class[start]
            && bytes[start - 1] == b'\n';
        for (off, c) in line.char_indices() {
            let b = start + off;
            any_exempt |= exempt[b];
            if cls == "blank" {
                if c == ' ' || c == '\t' {
                    if class[b] == b'x' {
                        lead.push(if c == '\t' { "t" } else { "s" });
                    } else {
                        cls = "other";
                    }
                } else {
                    cls = if class[b] == b'x' { "code" } else { "other" };
                }
            }
        }
        if starts_other {
            cls = "other";
        }
        out.push(json!({"lead": lead, "cls": cls, "depth": depth_at[start].max(0),
                        "exempt": any_exempt || (line.is_empty() && start < n && exempt[start.min(n - 1)])}));
        start = end + 1;
    }
    json!(out)
}


// ---------------------------------------------------------------------------
// C10: the `use` items of a text, parsed by rustc_parse (never by rustfmt).
// ---------------------------------------------------------------------------
fn use_tree_json(t: &rustc_ast::ast::UseTree) -> Value {
    use rustc_ast::ast::UseTreeKind;
    let path: Vec<String> = t.prefix.segments.iter().map(|s| s.ident.to_string()).collect();
    match &t.kind {
        UseTreeKind::Simple(rename) => json!({"k": "simple", "path": path,
            "rename": rename.map(|r| r.to_string()).unwrap_or_default(), "items": []}),
        UseTreeKind::Glob => json!({"k": "glob", "path": path, "rename": "", "items": []}),
        UseTreeKind::Nested { items, .. } => json!({"k": "nested", "path": path, "rename": "",
            "items": items.iter().map(|(t, _)| use_tree_json(t)).collect::<Vec<_>>()}),
    }
}

fn uses_projection(text: &str, edition: &str) -> Value {
    use rustc_span::edition::Edition;
    let ed = match edition {
        "2018" => Edition::Edition2018,
        "2021" => Edition::Edition2021,
        "2024" => Edition::Edition2024,
        _ => Edition::Edition2015,
    };
    let text = text.to_owned();
    let r = catch_unwind(AssertUnwindSafe(|| {
        rustc_span::create_session_globals_then(ed, None, || {
            let psess = rustc_session::parse::ParseSess::with_dcx(
                rustc_errors::DiagCtxt::new(Box::new(rustc_errors::emitter::SilentEmitter {
                    fatal_emitter: Box::new(rustc_errors::emitter::HumanEmitter::new(
                        Box::new(std::io::sink()),
                        rustc_errors::fallback_fluent_bundle(
                            rustc_driver::DEFAULT_LOCALE_RESOURCES.to_vec(),
                            false,
                        ),
                    )),
                    fatal_note: None,
                    emit_fatal_diagnostic: false,
                })),
                std::sync::Arc::new(rustc_span::source_map::SourceMap::new(
                    rustc_span::source_map::FilePathMapping::empty(),
                )),
            );
            let mut parser = match rustc_parse::new_parser_from_source_str(
                &psess,
                rustc_span::FileName::Custom("proj".to_owned()),
                text,
            ) {
                Ok(p) => p,
                Err(errs) => {
                    for e in errs {
                        e.cancel();
                    }
                    return Value::Null;
                }
            };
            let krate = match parser.parse_crate_mod() {
                Ok(k) => k,
                Err(e) => {
                    e.cancel();
                    return Value::Null;
                }
            };
            let mut items = vec![];
            for item in &krate.items {
                match &item.kind {
                    rustc_ast::ast::ItemKind::Use(tree) => {
                        let vis = rustc_ast_pretty::pprust::vis_to_string(&item.vis);
                        let attrs: Vec<String> = item
                            .attrs
                            .iter()
                            .map(|a| rustc_ast_pretty::pprust::attribute_to_string(a))
                            .collect();
                        items.push(json!({"use": true, "vis": vis.trim(), "attrs": attrs,
                                          "tree": use_tree_json(tree)}));
                    }
                    _ => items.push(json!({"use": false, "vis": "", "attrs": [],
                                           "tree": {"k": "other", "path": [], "rename": "", "items": []}})),
                }
            }
            json!(items)
        })
    }));
    r.unwrap_or(Value::Null)
}


/// Token-preserving re-layout: only whitespace tokens (as seen by rustc_lexer) are
/// rewritten -- a whitespace run with a line break becomes 1..3 line breaks plus a random
/// indentation, one without becomes 1..2 blanks.  Comments and literals are untouched.
fn relayout(text: &str, seed: u64) -> String {
    use rustc_lexer::TokenKind as T;
    let mut rng = seed.wrapping_mul(0x9E37_79B9_7F4A_7C15) | 1;
    let mut next = move || {
        rng ^= rng << 13;
        rng ^= rng >> 7;
        rng ^= rng << 17;
        rng
    };
    let mut out = String::with_capacity(text.len() + 64);
    let mut pos = 0usize;
    let mut prev_line_comment = false;
    // a shebang line / frontmatter is kept as it is
    let body_start = rustc_lexer::strip_shebang(text).unwrap_or(0);
    out.push_str(&text[..body_start]);
    pos += body_start;
    for tok in rustc_lexer::tokenize(&text[body_start..]) {
        let s = &text[pos..pos + tok.len as usize];
        pos += tok.len as usize;
        match tok.kind {
            T::Whitespace => {
                if s.contains('\n') || prev_line_comment {
                    let n = 1 + (next() % 3) as usize;
                    for _ in 0..n.min(if s.matches('\n').count() >= 2 { 3 } else { 1 }) {
                        out.push('\n');
                    }
                    for _ in 0..(next() % 9) {
                        out.push(' ');
                    }
                } else {
                    out.push(' ');
                    if next() % 4 == 0 {
                        out.push(' ');
                    }
                }
            }
            _ => out.push_str(s),
        }
        prev_line_comment = matches!(tok.kind, T::LineComment { .. });
    }
    out
}


// ---------------------------------------------------------------------------
// C01: token ledger.  Both texts are parsed by rustc_parse and printed by
// rustc_ast_pretty (layout and everything the AST does not record are erased;
// macro token trees are kept token by token); imports, extern crates and
// out-of-line mod declarations are left out (C10 / C11 judge them); the two
// token sequences are aligned and every difference is reported as a hunk.
// ---------------------------------------------------------------------------
fn with_parsed<R>(
    text: &str,
    edition: &str,
    f: impl FnOnce(&rustc_ast::ast::Crate) -> R,
) -> Option<R> {
    use rustc_span::edition::Edition;
    let ed = match edition {
        "2018" => Edition::Edition2018,
        "2021" => Edition::Edition2021,
        "2024" => Edition::Edition2024,
        _ => Edition::Edition2015,
    };
    let text = text.to_owned();
    catch_unwind(AssertUnwindSafe(|| {
        rustc_span::create_session_globals_then(ed, None, || {
            let psess = rustc_session::parse::ParseSess::with_dcx(
                rustc_errors::DiagCtxt::new(Box::new(rustc_errors::emitter::SilentEmitter {
                    fatal_emitter: Box::new(rustc_errors::emitter::HumanEmitter::new(
                        Box::new(std::io::sink()),
                        rustc_errors::fallback_fluent_bundle(
                            rustc_driver::DEFAULT_LOCALE_RESOURCES.to_vec(),
                            false,
                        ),
                    )),
                    fatal_note: None,
                    emit_fatal_diagnostic: false,
                })),
                std::sync::Arc::new(rustc_span::source_map::SourceMap::new(
                    rustc_span::source_map::FilePathMapping::empty(),
                )),
            );
            let mut parser = match rustc_parse::new_parser_from_source_str(
                &psess,
                rustc_span::FileName::Custom("proj".to_owned()),
                text,
            ) {
                Ok(p) => p,
                Err(errs) => {
                    for e in errs {
                        e.cancel();
                    }
                    return None;
                }
            };
            let parsed = parser.parse_crate_mod();
            let res = match parsed {
                Ok(k) => {
                    if psess.dcx().has_errors().is_some() {
                        None
                    } else {
                        Some(f(&k))
                    }
                }
                Err(e) => {
                    e.cancel();
                    None
                }
            };
            drop(parser);
            res
        })
    }))
    .ok()
    .flatten()
}

fn print_items(items: &[rustc_ast::ptr::P<rustc_ast::ast::Item>], out: &mut String) {
    use rustc_ast::ast::{ItemKind, ModKind};
    for item in items {
        match &item.kind {
            ItemKind::Use(..) | ItemKind::ExternCrate(..) => {}
            ItemKind::Mod(_, _, ModKind::Unloaded) => {}
            ItemKind::Mod(_, ident, ModKind::Loaded(inner, ..)) => {
                for a in &item.attrs {
                    out.push_str(&rustc_ast_pretty::pprust::attribute_to_string(a));
                    out.push('\n');
                }
                out.push_str(&rustc_ast_pretty::pprust::vis_to_string(&item.vis));
                out.push_str(&format!("mod {} {{\n", ident));
                print_items(inner, out);
                out.push_str("}\n");
            }
            _ => {
                out.push_str(&rustc_ast_pretty::pprust::item_to_string(item));
                out.push('\n');
            }
        }
    }
}

/// Token vectors of the pretty-printed crate, one per top-level unit (crate attributes,
/// then each item that is kept), so that the alignment never has to span the whole file.
fn pretty_tokens(text: &str, edition: &str) -> Option<Vec<Vec<String>>> {
    let units: Vec<String> = with_parsed(text, edition, |k| {
        let mut units = vec![];
        let mut s = String::new();
        for a in &k.attrs {
            s.push_str(&rustc_ast_pretty::pprust::attribute_to_string(a));
            s.push('\n');
        }
        units.push(s);
        for item in &k.items {
            let mut s = String::new();
            print_items(std::slice::from_ref(item), &mut s);
            if !s.is_empty() {
                units.push(s);
            }
        }
        units
    })?;
    Some(units.iter().map(|u| tokens_of(u)).collect())
}

/// A numeric literal by VALUE (DESIGN.md F.5): `_` removed, hex digits / exponent marker in
/// lower case, and -- for floats -- the spelling of an all-zero or empty fractional part
/// (`1.`, `1.0`, `1.00` are one number; `1` the integer is another: floats keep an `f:` mark).
fn canon_number(s: &str, is_float: bool) -> String {
    let body_end = s
        .char_indices()
        .find(|(i, c)| {
            // the suffix starts at the first letter that cannot belong to the number
            let hex = s.starts_with("0x");
            *i > 0
                && c.is_ascii_alphabetic()
                && !(hex && c.is_ascii_hexdigit())
                && !(!hex && (*c == 'e' || *c == 'E') && is_float
                    && s[*i + 1..].chars().next().map_or(false, |n| n.is_ascii_digit() || n == '+' || n == '-' || n == '_'))
                && !(*i == 1 && s.starts_with('0') && matches!(c, 'x' | 'o' | 'b'))
        })
        .map_or(s.len(), |(i, _)| i);
    let (num, suffix) = s.split_at(body_end);
    let mut num: String = num.chars().filter(|c| *c != '_').collect::<String>().to_ascii_lowercase();
    if is_float {
        let (mant, exp) = match num.find('e') {
            Some(i) => (num[..i].to_owned(), num[i..].to_owned()),
            None => (num.clone(), String::new()),
        };
        let mant = if let Some(dot) = mant.find('.') {
            let frac = mant[dot + 1..].trim_end_matches('0');
            if mant.len() == dot + 1 && exp.is_empty() {
                // `1.`: the spelling that needs parentheses / a blank before `.` or `..`
                // (class `floatdot` of the ledger)
                mant.clone()
            } else if frac.is_empty() {
                mant[..dot].to_owned()
            } else {
                format!("{}.{}", &mant[..dot], frac)
            }
        } else {
            mant
        };
        let exp = exp.replace("e+", "e");
        num = format!("f:{mant}{exp}");
    }
    format!("{num}{suffix}")
}

fn tokens_of(printed: &str) -> Vec<String> {
    use rustc_lexer::TokenKind as T;
    let mut toks: Vec<String> = vec![];
    let mut pos = 0usize;
    let mut last_was_doc = false;
    for tok in rustc_lexer::tokenize(printed) {
        let s = &printed[pos..pos + tok.len as usize];
        pos += tok.len as usize;
        match tok.kind {
            T::Whitespace => continue,
            T::LineComment { doc_style: None } | T::BlockComment { doc_style: None, .. } => continue,
            T::LineComment { .. } | T::BlockComment { .. } => {
                // doc comments: re-indentation (and, under the comment-rewriting options,
                // re-wrapping) inside them is a permitted normalisation: consecutive doc
                // comments become ONE token holding their words
                let is_block = matches!(tok.kind, T::BlockComment { .. });
                let body: String = if is_block {
                    // `/** .. */` or `/*! .. */`: drop the markers and the `*` gutter
                    let inner = &s[3..s.len().saturating_sub(2).max(3)];
                    inner
                        .lines()
                        .map(|l| l.trim_start().trim_start_matches('*'))
                        .collect::<Vec<_>>()
                        .join(" ")
                } else {
                    s[3..].to_owned()
                };
                let words: Vec<&str> = body.split_whitespace().collect();
                // (white space inside doc text is not compared: re-indentation is permitted
                // and the comment-rewriting options re-wrap it)
                if last_was_doc {
                    let last = toks.last_mut().unwrap();
                    for w in words {
                        last.push_str(w);
                    }
                } else {
                    toks.push(format!("///{}", words.join("")));
                }
                last_was_doc = true;
                continue;
            }
            T::Literal { kind, .. } => {
                use rustc_lexer::LiteralKind as L;
                match kind {
                    L::Str { .. } | L::ByteStr { .. } | L::CStr { .. } => {
                        // a line continuation (backslash-newline plus indentation) has no value
                        let mut v = String::new();
                        let mut it = s.chars().peekable();
                        while let Some(c) = it.next() {
                            if c == '\\' {
                                match it.peek() {
                                    Some('\n') => {
                                        while matches!(it.peek(), Some(c) if c.is_whitespace()) {
                                            it.next();
                                        }
                                    }
                                    Some(_) => {
                                        v.push(c);
                                        v.push(it.next().unwrap());
                                    }
                                    None => v.push(c),
                                }
                            } else {
                                v.push(c);
                            }
                        }
                        toks.push(v);
                    }
                    L::Int { .. } | L::Float { .. } => toks.push(canon_number(s, matches!(kind, L::Float { .. }))),
                    _ => toks.push(s.to_owned()),
                }
            }
            _ => toks.push(s.to_owned()),
        }
        last_was_doc = false;
    }
    // imports in statement position (inside blocks) are C10's business as well
    let mut out: Vec<String> = Vec::with_capacity(toks.len());
    let mut i = 0usize;
    while i < toks.len() {
        let at_stmt_start = out.last().map_or(true, |p| matches!(p.as_str(), "{" | "}" | ";" | "]"));
        // (`use |x| ..` / `use || ..` is a closure of the ergonomic-clones syntax, not an import)
        let closure = toks.get(i + 1).map_or(true, |n| n == "|");
        if toks[i] == "use" && at_stmt_start && !closure {
            while i < toks.len() && toks[i] != ";" {
                i += 1;
            }
            i += 1;
            continue;
        }
        out.push(std::mem::take(&mut toks[i]));
        i += 1;
    }
    out
}

fn ledger(src: &str, out: &str, edition: &str) -> Value {
    let (Some(ua), Some(ub)) = (pretty_tokens(src, edition), pretty_tokens(out, edition)) else {
        return json!({"parsed_in": pretty_tokens(src, edition).is_some(),
                      "parsed_out": pretty_tokens(out, edition).is_some(), "edits": []});
    };
    if ua.len() == ub.len() {
        let mut edits: Vec<Value> = vec![];
        let mut n_tokens = 0usize;
        let mut too_big = false;
        for (k, (a, b)) in ua.iter().zip(ub.iter()).enumerate() {
            n_tokens += a.len();
            if a == b {
                continue;
            }
            let v = ledger_tokens(a, b);
            too_big |= v.get("too_big").is_some();
            for e in v["edits"].as_array().cloned().unwrap_or_default() {
                let mut e = e;
                // keep gap numbers of different units apart
                e["pos"] = json!(e["pos"].as_u64().unwrap_or(0) + (k as u64) * 1_000_000);
                edits.push(e);
            }
        }
        let mut r = json!({"parsed_in": true, "parsed_out": true, "edits": edits, "n_tokens": n_tokens});
        if too_big {
            r["too_big"] = json!(true);
        }
        return r;
    }
    let a: Vec<String> = ua.into_iter().flatten().collect();
    let b: Vec<String> = ub.into_iter().flatten().collect();
    ledger_tokens(&a, &b)
}

fn ledger_tokens(a: &[String], b: &[String]) -> Value {
    let (n, m) = (a.len(), b.len());
    let mut pre = 0;
    while pre < n && pre < m && a[pre] == b[pre] {
        pre += 1;
    }
    let mut suf = 0;
    while suf < n - pre && suf < m - pre && a[n - 1 - suf] == b[m - 1 - suf] {
        suf += 1;
    }
    let (ma, mb) = (&a[pre..n - suf], &b[pre..m - suf]);
    if ma.is_empty() && mb.is_empty() {
        return json!({"parsed_in": true, "parsed_out": true, "edits": [], "n_tokens": n});
    }
    if ma.len() * mb.len() > 40_000_000 {
        return json!({"parsed_in": true, "parsed_out": true, "n_tokens": n, "too_big": true,
                      "edits": [{"op": "del", "tok": "<too many differences to align>", "cls": "punct", "prev2": "", "after": "", "prev": "",
                                 "next": "", "head": "", "pos": 0, "solo": false}]});
    }
    let (la, lb) = (ma.len(), mb.len());
    let mut dp = vec![0u32; (la + 1) * (lb + 1)];
    for i in (0..la).rev() {
        for j in (0..lb).rev() {
            dp[i * (lb + 1) + j] = if ma[i] == mb[j] {
                dp[(i + 1) * (lb + 1) + j + 1] + 1
            } else {
                dp[(i + 1) * (lb + 1) + j].max(dp[i * (lb + 1) + j + 1])
            };
        }
    }
    // single-token edits, in order; `prev` is the previous token of the OUTPUT stream as
    // rebuilt so far, `next` the next token of the input not yet consumed, `head` the first
    // token of the enclosing statement (in the output stream), `pos` the index of the gap
    // between common tokens (edits with the same pos are adjacent)
    let mut edits: Vec<Value> = vec![];
    let mut built: Vec<&str> = a[..pre].iter().map(|s| s.as_str()).collect();
    let head_of = |built: &Vec<&str>| -> String {
        let mut k = built.len();
        let mut depth = 0i32;
        let mut head = "";
        while k > 0 {
            let t = built[k - 1];
            if depth == 0 && (t == ";" || t == "{" || t == "}" || t == ",") {
                break;
            }
            match t {
                ")" | "]" => depth += 1,
                "(" | "[" => {
                    if depth == 0 {
                        break;
                    }
                    depth -= 1
                }
                _ => {}
            }
            head = t;
            k -= 1;
        }
        head.to_owned()
    };
    let cls_of = |t: &str| -> &'static str {
        let c = t.chars().next().unwrap_or(' ');
        if t.starts_with("//") || t.starts_with("/*") {
            "doc"
        } else if c == '"' || t.starts_with("r\"") || t.starts_with("r#\"") || t.starts_with("b\"")
            || t.starts_with("c\"") || t.starts_with("br")
        {
            "str"
        } else if c.is_ascii_digit() || t.starts_with("f:") {
            if t.ends_with('.') { "floatdot" } else { "num" }
        } else if c == '\'' {
            "charlt"
        } else if c.is_alphabetic() || c == '_' {
            "ident"
        } else {
            "punct"
        }
    };
    // a `,` that is the only top-level comma of a parenthesised group which is not an argument
    // list (no callee / macro bang / index before the `(`) and that stands right before the
    // `)`: the comma of a ONE-ELEMENT TUPLE (expression, pattern or type) -- not optional
    let solo_comma = |built: &Vec<&str>, follow: &str| -> bool {
        if follow != ")" {
            return false;
        }
        let mut depth = 0i32;
        let mut k = built.len();
        while k > 0 {
            let t = built[k - 1];
            match t {
                ")" | "]" | "}" => depth += 1,
                "(" | "[" | "{" => {
                    if depth == 0 {
                        if t != "(" {
                            return false;
                        }
                        let before = if k >= 2 { built[k - 2] } else { "" };
                        const HEADS: [&str; 22] = [
                            "let", "in", "match", "return", "if", "while", "mut", "ref", "move", "else",
                            "break", "yield", "as", "for", "box", "dyn", "impl", "where", "const",
                            "static", "unsafe", "loop",
                        ];
                        let c = before.chars().next().unwrap_or(' ');
                        let callee = ((c.is_alphanumeric() || c == '_') && !HEADS.contains(&before))
                            || matches!(before, "!" | ")" | "]" | ">" | "?");
                        return !callee;
                    }
                    depth -= 1
                }
                "," if depth == 0 => return false,
                _ => {}
            }
            k -= 1;
        }
        false
    };
    let (mut i, mut j) = (0usize, 0usize);
    let mut pos = 0usize;
    while i < la || j < lb {
        if i < la && j < lb && ma[i] == mb[j] {
            built.push(ma[i].as_str());
            i += 1;
            j += 1;
            pos += 1;
            continue;
        }
        let take_ins = j < lb && (i == la || dp[i * (lb + 1) + j + 1] >= dp[(i + 1) * (lb + 1) + j]);
        let prev = built.last().copied().unwrap_or("").to_owned();
        let prev2 = if built.len() > 1 { built[built.len() - 2].to_owned() } else { String::new() };
        let next = if i < la { ma[i].clone() } else if suf > 0 { a[n - suf].clone() } else { String::new() };
        let next_out = if j < lb { mb[j].clone() } else if suf > 0 { a[n - suf].clone() } else { String::new() };
        let head = head_of(&built);
        if take_ins {
            let after = if j + 1 < lb { mb[j + 1].clone() } else if suf > 0 { a[n - suf].clone() } else { String::new() };
            let solo = mb[j] == "," && solo_comma(&built, &after);
            edits.push(json!({"op": "ins", "tok": mb[j], "cls": cls_of(&mb[j]), "prev": prev, "prev2": prev2, "next": next,
                              "after": after, "head": head, "pos": pos, "solo": solo}));
            built.push(mb[j].as_str());
            j += 1;
        } else {
            let after = if i + 1 < la { ma[i + 1].clone() } else if suf > 0 { a[n - suf].clone() } else { String::new() };
            let solo = ma[i] == "," && solo_comma(&built, &after);
            edits.push(json!({"op": "del", "tok": ma[i], "cls": cls_of(&ma[i]), "prev": prev, "prev2": prev2, "next": after,
                              "after": next_out, "head": head, "pos": pos, "solo": solo}));
            i += 1;
        }
    }
    json!({"parsed_in": true, "parsed_out": true, "edits": edits, "n_tokens": n})
}


/// Token-level mutation (C16): deletion, duplication, swapping of tokens, truncation,
/// delimiter imbalance, non-ASCII insertion -- 1..3 edits chosen by the seed.
fn mutate(text: &str, seed: u64) -> String {
    use rustc_lexer::TokenKind as T;
    let mut rng = seed.wrapping_mul(0x9E37_79B9_7F4A_7C15) | 1;
    let mut next = move || {
        rng ^= rng << 13;
        rng ^= rng >> 7;
        rng ^= rng << 17;
        rng
    };
    let mut toks: Vec<String> = vec![];
    let mut pos = 0usize;
    for tok in rustc_lexer::tokenize(text) {
        toks.push(text[pos..pos + tok.len as usize].to_owned());
        let _ = matches!(tok.kind, T::Whitespace);
        pos += tok.len as usize;
    }
    if toks.is_empty() {
        return "}".to_owned();
    }
    let sig: Vec<usize> = (0..toks.len()).filter(|&i| !toks[i].trim().is_empty()).collect();
    if sig.is_empty() {
        return text.to_owned();
    }
    let n_edits = 1 + (next() % 3) as usize;
    for _ in 0..n_edits {
        if toks.is_empty() {
            break;
        }
        let k = sig[(next() % sig.len() as u64) as usize].min(toks.len() - 1);
        match next() % 8 {
            0 => {
                toks.remove(k);
            }
            1 => {
                let t = toks[k].clone();
                toks.insert(k, t);
            }
            2 => {
                let j = sig[(next() % sig.len() as u64) as usize].min(toks.len() - 1);
                toks.swap(k, j);
            }
            3 => {
                toks.truncate(k);
            }
            4 => {
                let d = ["(", ")", "{", "}", "[", "]", "<", ">"][(next() % 8) as usize];
                toks.insert(k, d.to_owned());
            }
            5 => {
                let u = ["\u{00e9}", "\u{4e16}", "\u{1F98A}", "\u{200b}", "\u{0301}", "\t"][(next() % 6) as usize];
                toks.insert(k, u.to_owned());
            }
            6 => {
                // unbalance: drop the next closing delimiter
                if let Some(j) = (k..toks.len()).find(|&j| matches!(toks[j].as_str(), ")" | "}" | "]")) {
                    toks.remove(j);
                }
            }
            _ => {
                let kw = ["fn", "impl", "where", "=>", "::", "'a", "unsafe", "match", "|", "&&", "r#", "\""][(next() % 12) as usize];
                toks.insert(k, format!(" {kw} "));
            }
        }
    }
    toks.concat()
}

// ---------------------------------------------------------------------------------------
// C03 / C04: comment slots.  For a parsable text, the token boundaries at which a comment
// stands in one of the positions property C03 names, computed from rustc's own AST.

struct SlotVisitor {
    /// (offset of the first byte of element k >= 1 of a list, class)
    before: Vec<(u32, &'static str)>,
    /// (offset of the last byte + 1 of an element of a list, class)
    ends: Vec<(u32, &'static str)>,
    /// byte ranges of the statements of function bodies
    stmts: Vec<(u32, u32)>,
    fn_depth: usize,
}

fn lo_with_attrs(attrs: &[rustc_ast::ast::Attribute], span: rustc_span::Span) -> u32 {
    let mut lo = span.lo().0;
    for a in attrs {
        lo = lo.min(a.span.lo().0);
    }
    lo
}

impl SlotVisitor {
    fn list(&mut self, cls: &'static str, elems: impl Iterator<Item = (u32, u32)>) {
        for (k, (lo, hi)) in elems.enumerate() {
            if k > 0 {
                self.before.push((lo, cls));
            }
            self.ends.push((hi, cls));
        }
    }
    fn items(&mut self, items: &[rustc_ast::ptr::P<rustc_ast::ast::Item>]) {
        let v: Vec<(u32, u32)> = items
            .iter()
            .map(|i| (lo_with_attrs(&i.attrs, i.span), i.span.hi().0))
            .collect();
        self.list("items", v.into_iter());
    }
    fn fields(&mut self, vd: &rustc_ast::ast::VariantData) {
        let v: Vec<(u32, u32)> = vd
            .fields()
            .iter()
            .map(|f| (lo_with_attrs(&f.attrs, f.span), f.span.hi().0))
            .collect();
        self.list("fields", v.into_iter());
    }
}

impl<'ast> rustc_ast::visit::Visitor<'ast> for SlotVisitor {
    fn visit_item(&mut self, item: &'ast rustc_ast::ast::Item) {
        use rustc_ast::ast::{ItemKind, ModKind};
        match &item.kind {
            ItemKind::Mod(_, _, ModKind::Loaded(inner, ..)) => self.items(inner),
            ItemKind::Struct(_, vd, _) | ItemKind::Union(_, vd, _) => self.fields(vd),
            ItemKind::Enum(_, def, _) => {
                let v: Vec<(u32, u32)> = def
                    .variants
                    .iter()
                    .map(|f| (lo_with_attrs(&f.attrs, f.span), f.span.hi().0))
                    .collect();
                self.list("variants", v.into_iter());
                for var in &def.variants {
                    self.fields(&var.data);
                }
            }
            ItemKind::Impl(imp) => {
                let v: Vec<(u32, u32)> = imp
                    .items
                    .iter()
                    .map(|i| (lo_with_attrs(&i.attrs, i.span), i.span.hi().0))
                    .collect();
                self.list("items", v.into_iter());
            }
            ItemKind::Trait(tr) => {
                let v: Vec<(u32, u32)> = tr
                    .items
                    .iter()
                    .map(|i| (lo_with_attrs(&i.attrs, i.span), i.span.hi().0))
                    .collect();
                self.list("items", v.into_iter());
            }
            _ => {}
        }
        rustc_ast::visit::walk_item(self, item);
    }

    fn visit_fn(
        &mut self,
        fk: rustc_ast::visit::FnKind<'ast>,
        _: rustc_span::Span,
        _: rustc_ast::node_id::NodeId,
    ) {
        if let rustc_ast::visit::FnKind::Fn(_, _, f) = &fk {
            let v: Vec<(u32, u32)> = f
                .sig
                .decl
                .inputs
                .iter()
                .map(|p| {
                    // the span of a `self` parameter does not always cover its type
                    let hi = p.span.hi().0.max(p.ty.span.hi().0).max(p.pat.span.hi().0);
                    (lo_with_attrs(&p.attrs, p.span).min(p.pat.span.lo().0), hi)
                })
                .collect();
            self.list("params", v.into_iter());
            if let Some(body) = &f.body {
                for s in &body.stmts {
                    self.stmts.push((s.span.lo().0, s.span.hi().0));
                }
            }
            self.fn_depth += 1;
            rustc_ast::visit::walk_fn(self, fk);
            self.fn_depth -= 1;
            return;
        }
        rustc_ast::visit::walk_fn(self, fk);
    }

    fn visit_block(&mut self, b: &'ast rustc_ast::ast::Block) {
        if self.fn_depth > 0 {
            let v: Vec<(u32, u32)> = b.stmts.iter().map(|s| (s.span.lo().0, s.span.hi().0)).collect();
            self.list("stmts", v.into_iter());
        }
        rustc_ast::visit::walk_block(self, b);
    }

    fn visit_expr(&mut self, e: &'ast rustc_ast::ast::Expr) {
        use rustc_ast::ast::ExprKind;
        match &e.kind {
            ExprKind::Call(_, args) => {
                let v: Vec<(u32, u32)> = args
                    .iter()
                    .map(|a| (lo_with_attrs(&a.attrs, a.span), a.span.hi().0))
                    .collect();
                self.list("args", v.into_iter());
            }
            ExprKind::MethodCall(mc) => {
                let v: Vec<(u32, u32)> = mc
                    .args
                    .iter()
                    .map(|a| (lo_with_attrs(&a.attrs, a.span), a.span.hi().0))
                    .collect();
                self.list("args", v.into_iter());
            }
            ExprKind::Match(_, arms, _) => {
                let v: Vec<(u32, u32)> = arms
                    .iter()
                    .map(|a| (lo_with_attrs(&a.attrs, a.span), a.span.hi().0))
                    .collect();
                self.list("arms", v.into_iter());
            }
            _ => {}
        }
        rustc_ast::visit::walk_expr(self, e);
    }
}

/// Slots of `text`: every token boundary (offset of the first byte of a token, with the
/// preceding token not gluing to it) that lies in one of the named positions:
///   {"off", "cls", "how": "before" | "eol" | "in"}
/// plus, for every non-doc comment already in the text, the class of the position it stands at.
fn slots(text: &str, edition: &str) -> Value {
    use rustc_lexer::TokenKind as T;
    let vis = with_parsed(text, edition, |k| {
        let mut v = SlotVisitor { before: vec![], ends: vec![], stmts: vec![], fn_depth: 0 };
        v.items(&k.items);
        rustc_ast::visit::walk_crate(&mut v, k);
        v
    });
    let Some(vis) = vis else { return Value::Null };
    // tokens: (start, end, kind tag, text)
    let mut toks: Vec<(usize, usize, u8)> = vec![]; // 0 = ws, 1 = comment (non-doc), 2 = other
    let mut pos = 0usize;
    for tok in rustc_lexer::tokenize(text) {
        let end = pos + tok.len as usize;
        let tag = match tok.kind {
            T::Whitespace => 0,
            T::LineComment { doc_style: None } | T::BlockComment { doc_style: None, .. } => 1,
            _ => 2,
        };
        toks.push((pos, end, tag));
        pos = end;
    }
    let glue = |c: char| "-=><&|+*/%^!.:~@#$?".contains(c);
    let before: std::collections::HashMap<u32, &'static str> = vis.before.iter().cloned().collect();
    let in_stmt = |o: u32| vis.stmts.iter().any(|(lo, hi)| *lo < o && o < *hi);
    let class_of_boundary = |o: usize| -> Option<(&'static str, &'static str)> {
        if let Some(c) = before.get(&(o as u32)) {
            return Some((c, "before"));
        }
        if in_stmt(o as u32) {
            return Some(("instmt", "in"));
        }
        None
    };
    let mut out = vec![];
    let mut comments = vec![];
    // "before" and "in" slots
    for (i, (s, _e, tag)) in toks.iter().enumerate() {
        if *tag != 2 || *s == 0 {
            continue;
        }
        let prev = text[..*s].chars().last().unwrap();
        let next = text[*s..].chars().next().unwrap();
        if glue(prev) && glue(next) {
            continue;
        }
        let _ = i;
        if let Some((cls, how)) = class_of_boundary(*s) {
            out.push(json!({"off": s, "cls": cls, "how": how}));
        }
    }
    // "eol" slots: after the end of an element (and the `,` / `;` that follows it)
    let mut ends: Vec<(u32, &'static str)> = vis.ends.clone();
    ends.sort();
    ends.dedup_by_key(|e| e.0);
    let mut eol_at: std::collections::HashMap<usize, &'static str> = Default::default();
    for (hi, cls) in &ends {
        let mut o = *hi as usize;
        if o > text.len() {
            continue;
        }
        // skip blanks (not newlines) and one separator
        let rest = &text[o..];
        let t = rest.trim_start_matches([' ', '\t']);
        if t.starts_with(',') || t.starts_with(';') {
            o += rest.len() - t.len() + 1;
        }
        eol_at.insert(o, cls);
        out.push(json!({"off": o, "cls": cls, "how": "eol"}));
    }
    // the comments already present
    for (i, (s, e, tag)) in toks.iter().enumerate() {
        if *tag != 1 {
            continue;
        }
        // eol: only blanks / comments between an element end and this comment on the same line
        let mut cls: Option<(&'static str, &'static str)> = None;
        let mut j = i;
        loop {
            let start = toks[j].0;
            if let Some(c) = eol_at.get(&start) {
                cls = Some((c, "eol"));
                break;
            }
            if j == 0 {
                break;
            }
            let (ps, pe, ptag) = toks[j - 1];
            if ptag == 2 || text[ps..pe].contains('\n') {
                break;
            }
            j -= 1;
        }
        if cls.is_none() {
            // the next token that is neither blank nor comment
            if let Some((ns, _, _)) = toks[i..].iter().find(|t| t.2 == 2) {
                cls = class_of_boundary(*ns);
            }
            if cls.is_none() && in_stmt(*s as u32) {
                cls = Some(("instmt", "in"));
            }
        }
        comments.push(json!({"off": s, "text": &text[*s..*e],
                             "cls": cls.map(|c| c.0), "how": cls.map(|c| c.1)}));
    }
    json!({"slots": out, "comments": comments})
}
