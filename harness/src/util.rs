//! Shared helpers for the harness binaries.
pub fn fnv(bytes: &[u8]) -> u64 {
    let mut h: u64 = 0xcbf2_9ce4_8422_2325;
    for b in bytes {
        h ^= u64::from(*b);
        h = h.wrapping_mul(0x0000_0100_0000_01b3);
    }
    h
}
