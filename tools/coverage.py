#!/usr/bin/env python3
"""Vacuity report: run every model-checking configuration of spec/ with `-coverage 1` and list,
per module, how often each action of Next was taken (an action never taken means the
properties were never exercised on it).  Writes /verif/evidence/model-coverage.json.
Usage: python3 tools/coverage.py"""
import json
import sys
from pathlib import Path

sys.path.insert(0, str(Path(__file__).resolve().parent))
from rfv import core  # noqa: E402

MODELS = [("Backup", "Backup_backup.cfg"), ("Backup", "Backup_plain.cfg"), ("FsSem", "FsSem.cfg"),
          ("MC_Pipeline", "Pipeline_mc.cfg"), ("MC_Pipeline", "Pipeline_mcD.cfg"),
          ("MC_Service", "Service_quick.cfg"), ("MC_FormatDiff", "FormatDiff_quick.cfg"),
          ("MakeDiff", "MakeDiff_quick.cfg"), ("LineScan", "LineScan_quick.cfg"),
          ("Newline", "Newline.cfg"), ("VSpace", "VSpace.cfg"), ("FileLines", "FileLines_quick.cfg"),
          ("MC_VersionSort", "VersionSort_quick.cfg"), ("Skip", "Skip.cfg"),
          ("CommentKind", "CommentKind.cfg")]


def main():
    out = {}
    for mod, cfg in MODELS:
        try:
            res = core.tlc(mod, cfg, workers=4, timeout=1800, coverage=True)
        except core.ToolError as e:
            out[f"{mod}/{cfg}"] = {"error": str(e)[:300]}
            continue
        never = sorted(a for a, (d, t) in res.coverage.items() if t == 0)
        out[f"{mod}/{cfg}"] = {"ok": res.ok, "distinct_states": res.distinct,
                               "actions": {a: {"distinct": d, "taken": t}
                                           for a, (d, t) in sorted(res.coverage.items())},
                               "never_taken": never}
        print(f"{mod}/{cfg}: {res.distinct} states, {len(res.coverage)} actions, never taken: {never}")
    core.EVIDENCE.mkdir(exist_ok=True)
    (core.EVIDENCE / "model-coverage.json").write_text(json.dumps(out, indent=1))


if __name__ == "__main__":
    main()
