"""C07 — line-width and trailing-whitespace diagnostics are exact.

spec/LineScanCore.tla  the scanner (operational) and the expected reports (declarative)
spec/LineScan.tla      product automaton fed every symbol sequence up to a bound (TLC)
spec/LineScanObs.tla   the same definitions evaluated by TLC on (a) the exported
                       format_lines on enumerated texts, (b) whole rustfmt runs whose
                       OUTPUT is classified by rustc_lexer
"""
import itertools
import json
import random
import subprocess

from . import core, ucore
from .core import Scratch, ToolError, Verdict, log, tlc

SKIP_BODY = ["#[rustfmt::skip]", "fn skipped_fn() {", "    let y = {TOK};{TRAIL}", "}"]


def sources(mw):
    """(name, source, skipped item text or None) — sources whose OUTPUT keeps diagnosable lines."""
    out = []
    for delta in (-1, 0, 1, 30):
        n = max(3, mw + delta - 12)
        ident = "a" * n
        s = "s" * n
        c = "c" * (mw + delta)
        out.append((f"ident{delta}", f"fn f() {{\n    let x = {ident};\n}}\n", None))
        out.append((f"string{delta}", f'fn f() {{\n    let x = "{s}";\n}}\n', None))
        out.append((f"comment{delta}", f"// {c}\nfn f() {{}}\n", None))
        out.append((f"tailcomment{delta}", f"fn f() {{\n    let x = 1; // {c}\n}}\n", None))
        for trail in ("", "   "):
            for blanks in (0, 1, 4):
                body = "\n".join(SKIP_BODY).replace("{TOK}", ident).replace("{TRAIL}", trail)
                src = "fn before() {}\n" + "\n" * blanks + body + "\nfn  after( ) {}\n"
                out.append((f"skip{delta}_{len(trail)}_{blanks}", src, body))
    out.append(("mlstring", 'fn f() {\n    let x = "abc   \n    def\t\n";\n}\n', None))
    out.append(("blockcomment", "/* aaa   \n   bbb\t\n */\nfn f() {}\n", None))
    out.append(("tabs", "fn f() {\n\tlet x = 1;\t\n\tif x > 0 {\n\t\tfoo();   \n\t}\n}\n", None))
    out.append(("ok", "fn f() {\n    let x = 1;\n}\n", None))
    return out


def e2e_jobs(tier, rng):
    jobs = []
    widths = [40, 60] if tier == "quick" else [30, 40, 60, 100]
    cfgs = []
    for mw in widths:
        for (eoo, eou) in ((True, True), (True, False), (False, True), (False, False)):
            for ht, ts in ((False, 4), (True, 4), (True, 8), (False, 2)):
                cfgs.append((mw, eoo, eou, ht, ts))
    if tier == "quick":
        rng.shuffle(cfgs)
        cfgs = cfgs[:10] + [(40, True, True, False, 4), (60, True, True, True, 8)]
    for (mw, eoo, eou, ht, ts) in cfgs:
        for (name, src, skipped) in sources(mw):
            jobs.append({"id": len(jobs), "src": src, "name": "input.rs",
                         "opts": {"max_width": mw, "error_on_line_overflow": eoo,
                                  "error_on_unformatted": eou, "hard_tabs": ht,
                                  "tab_spaces": ts},
                         "want": ["out", "syms"],
                         "_meta": {"name": name, "mw": mw, "ts": ts, "eoo": eoo, "eou": eou,
                                   "ht": ht, "skipped": skipped}})
    return jobs


def crate_runs(v):
    """Diagnostics are per file: a skipped region of one file of a crate run says nothing about
    the lines of another.  lib.rs declares two modules; one holds a #[rustfmt::skip] item over
    lines 2..5, the other an unbreakable too-wide line at line p.  Through the binary."""
    core.build(harness=False)
    rustfmt = core.bin_path("rustfmt")
    wide = "a" * 120
    n = 0
    with Scratch("c07c") as sc:
        for skipper, other in (("alpha", "beta"), ("beta", "alpha")):
            for p in range(1, 8):
                for kind in ("wide", "trail"):
                    d = sc / f"{skipper}-{p}-{kind}"
                    d.mkdir()
                    (d / "lib.rs").write_text("mod alpha;\nmod beta;\n")
                    (d / f"{skipper}.rs").write_text(
                        "fn a() {}\n#[rustfmt::skip]\nfn  skipped( ) {\n    let  x=1;\n}\nfn b() {}\n")
                    lines = [f"fn f{i}() {{}}" for i in range(1, 9)]
                    if kind == "wide":
                        lines[p - 1] = f"fn {wide}() {{}}"
                    else:
                        lines[p - 1] = "const S: &str = \"x   \n\";"
                    (d / f"{other}.rs").write_text("\n".join(lines) + "\n")
                    r = subprocess.run([rustfmt, "--check", "--config",
                                        "error_on_line_overflow=true,error_on_unformatted=true",
                                        str(d / "lib.rs")], cwd=d, env=core.run_env({"HOME": str(d)}),
                                       capture_output=True, text=True, timeout=60)
                    n += 1
                    got = set()
                    for ln in r.stderr.split("\n"):
                        ln = ln.strip()
                        if ln.startswith("-->"):
                            parts = ln[3:].strip().rsplit(":", 3)
                            got.add((parts[0].rsplit("/", 1)[-1], int(parts[1])))
                    want = {(f"{other}.rs", p)}
                    if got != want or r.returncode != 1:
                        v.violation(f"crate:{skipper}:{p}:{kind}",
                                    f"crate run (skip item in {skipper}.rs lines 2-5, {kind} line {p} of "
                                    f"{other}.rs): reported {sorted(got)}, expected {sorted(want)}, exit "
                                    f"{r.returncode}", {"stderr": r.stderr[-1500:], "p": p, "kind": kind})
    return n


PRELUDES = {
    "none": "",
    "depr": "#[rustfmt_skip]\nfn keep() {}\n\n",
    "bogus": "#![rustfmt::bogus]\n\n",
    "lost": "fn g() {\n    let a = foo(/* gone */);\n}\n\n",
    "depr+lost": "#[rustfmt_skip]\nfn keep() {}\n\nfn g() {\n    let a = foo(/* gone */);\n}\n\n",
    "bogus+lost": "#![rustfmt::bogus]\n\nfn g() {\n    let a = foo(/* gone */);\n}\n\n",
}
LINE_MSGS = ("left behind trailing whitespace", "line formatted, but exceeded maximum width")


def prelude_runs(v):
    """The line diagnostics and the exit status do not depend on what else the same run has
    already reported: other kinds of diagnostics (a deprecated or unknown rustfmt attribute, a
    comment that would be lost) are placed before the offending line.  Through the binary."""
    core.build(harness=False)
    rustfmt = core.bin_path("rustfmt")
    wide = "a" * 120
    n = 0
    with Scratch("c07p") as sc:
        for pname, pre in PRELUDES.items():
            for kind in ("wide", "trail"):
                for eou in ("true", "false"):
                    for mode in (["--emit", "stdout"], ["--check"], [], ["--emit", "stdout", "-q"],
                                 ["--quiet"], ["<stdin>"]):
                        if kind == "wide":
                            body = f"fn f() {{\n    let {wide} = 1;\n}}\n"
                            off = 2
                        else:
                            # a blank at the end of a line of a statement that is kept as written
                            body = "fn f() {\n    let a = foo(/* gone */   \n    );\n}\n"
                            off = 2
                        line = pre.count("\n") + off
                        f = sc / f"p{n}.rs"
                        f.write_text(pre + body)
                        stdin = mode == ["<stdin>"]
                        r = subprocess.run([rustfmt] + ([] if stdin else mode) + ["--config",
                                            f"error_on_line_overflow=true,error_on_unformatted={eou},"
                                            "color=Never"] + ([] if stdin else [str(f)]), cwd=sc,
                                           env=core.run_env({"HOME": str(sc)}),
                                           input=(pre + body) if stdin else None,
                                           capture_output=True, text=True, timeout=60)
                        n += 1
                        got, msg = set(), None
                        for ln in r.stderr.split("\n"):
                            t = ln.strip()
                            if t.startswith(("error", "warning")):
                                msg = t.split(": ", 1)[-1]
                            elif t.startswith("-->") and msg and msg.startswith(LINE_MSGS):
                                loc = t[3:].strip().rsplit("/", 1)[-1]
                                if loc.split(":")[0] == ("<stdin>" if stdin else f.name):
                                    got.add(int(loc.split(":")[1]))
                        if got != {line} or r.returncode != 1:
                            v.violation(f"prelude:{pname}:{kind}:eou={eou}:{'_'.join(mode) or 'files'}",
                                        f"run with prelude {pname!r} ({kind} at line {line}, "
                                        f"error_on_unformatted={eou}, {' '.join(mode) or 'files'}): line "
                                        f"diagnostics at {sorted(got)}, expected [{line}] and exit 1, got "
                                        f"exit {r.returncode}",
                                        {"source": pre + body, "stderr": r.stderr[-1500:]})
    return n


def run(tier, seed, replay=None):
    v = Verdict("C07", tier, seed)
    rng = random.Random(seed)
    core.build(bins=False)
    res = tlc("LineScan", f"LineScan_{tier}.cfg", workers=8, timeout=1800, coverage=False)
    if not res.ok:
        v.violation("model", "LineScan.tla: " + (res.violation or "")[:400], {"tlc": res.raw[-2000:]})
    unit = core.harness_bin("rfv-unit")
    r = subprocess.run([unit, "linescan", str(seed + 1), "2500" if tier == "quick" else "30000"],
                       env=core.run_env(), capture_output=True, text=True)
    if r.returncode != 0:
        raise ToolError("rfv-unit linescan failed: " + r.stderr[-2000:])
    urecs = [json.loads(x) for x in r.stdout.splitlines() if x.strip()]
    with Scratch("c07") as sc:
        jobs = e2e_jobs(tier, rng)
        results = ucore.run_jobs([{k: j[k] for k in j if k != "_meta"} for j in jobs], sc)
        erecs, emeta = [], []
        for j, o in zip(jobs, results):
            m = j["_meta"]
            if not o.get("ok") or "syms" not in o:
                continue
            out = o["out"]
            skipped = []
            if m["skipped"]:
                body_lines = m["skipped"].split("\n")
                lines = out.split("\n")
                starts = [i for i, ln in enumerate(lines) if ln.strip() == "#[rustfmt::skip]"]
                if len(starts) == 1:
                    skipped = [[starts[0] + 1, starts[0] + len(body_lines)]]
                else:
                    continue
            tail = len(out) - len(out.rstrip("\n"))
            erecs.append({"cfg": {"mw": m["mw"], "ts": m["ts"], "eoo": m["eoo"], "eou": m["eou"]},
                          "syms": o["syms"], "skipped": skipped, "sel_all": True, "sel": [],
                          "reports": [[e[0], e[1]] for e in o.get("entries", [])
                                      if e[1] in ("LineOverflow", "TrailingWhitespace")],
                          "tail_in": 1, "tail_out": tail})
            emeta.append((j, o))
        slim = [{k: x[k] for k in ("cfg", "syms", "skipped", "sel_all", "sel", "reports",
                                   "tail_in", "tail_out")} for x in urecs] + erecs
        fails, ostates = core.eval_report("LineScanObs", "LineScanObs.cfg", slim, scratch=sc)
    n_unit = len(urecs)
    for idx, f in fails:
        bad = [x for x in f["fails"] if x in ("Exact", "OneFinalNewline")]
        if idx < n_unit:
            rec = urecs[idx]
            if bad:
                v.violation(f"unit:{','.join(bad)}:{json.dumps(rec['text'])}:{json.dumps(rec['cfg'], sort_keys=True)}:"
                            f"sk={rec['skipped']}:sel={rec['sel_all']}{rec['sel']}",
                            f"format_lines on {rec['text']!r} {rec['cfg']} reported {rec['reports']}; "
                            f"must {f['must']} may {f['may']}", rec)
            elif "AsModel" in f["fails"]:
                v.drift += 1
        else:
            j, o = emeta[idx - n_unit]
            m = j["_meta"]
            if bad:
                kind = "skipped-item" if m["skipped"] else "plain"
                if m["skipped"]:
                    src_line = j["src"].split("\n").index("#[rustfmt::skip]")
                    out_line = [x.strip() for x in o["out"].split("\n")].index("#[rustfmt::skip]")
                    kind += f":moved={src_line != out_line}"
                v.violation(f"e2e:{kind}:{','.join(bad)}:{m['name']}:mw={m['mw']}:ts={m['ts']}:"
                            f"eoo={m['eoo']}:eou={m['eou']}:ht={m['ht']}",
                            f"rustfmt on source '{m['name']}' (max_width {m['mw']}, hard_tabs {m['ht']}, "
                            f"tab_spaces {m['ts']}) reported {o.get('entries')}; must {f['must']} "
                            f"may {f['may']}",
                            {"src": j["src"], "opts": j["opts"], "out": o["out"],
                             "entries": o.get("entries"), "model": f})
            elif "AsModel" in f["fails"]:
                v.drift += 1
    n_crate = crate_runs(v)
    n_prelude = prelude_runs(v)
    for rec in urecs[:2]:
        v.sample({"text": rec["text"], "cfg": rec["cfg"], "reports": rec["reports"]})
    if emeta:
        j, o = emeta[0]
        v.sample({"source": j["src"][:120], "opts": j["opts"], "entries": o.get("entries")})
    cov = {"states": res.distinct, "transitions": res.states,
           "traces_validated_against_impl": len(slim) - len(fails),
           "evaluations": len(slim),
           "distinct_nontrivial": len({json.dumps([x["syms"], x["cfg"], x["skipped"], x["sel"]])
                                       for x in slim if x["reports"]}),
           "rule": "(a) every single-line text of the shape blanks+code+string+comment/trailing "
                   "blanks x {max_width 4,6} x {tab_spaces 1,2,4} x 4 flag settings and seed-selected "
                   "2..3-line texts with skipped ranges / line selections through the exported "
                   "format_lines; (b) generated sources (over-long identifiers, strings, comments, "
                   "blanks trapped in strings/comments, the same inside #[rustfmt::skip] items "
                   "after 0..4 blank lines) through the whole formatter, output classified by "
                   "rustc_lexer; distinct_nontrivial = distinct inputs with at least one report",
           "unit_records": n_unit, "e2e_records": len(erecs), "crate_runs": n_crate, "prelude_runs": n_prelude,
           "obs_states": ostates,
           "exhaustive": False}
    return v.finish("model_checking", cov, [
        "rustc_lexer classifies the output's characters (string / comment / code)",
        "the output lines of a skipped item are located by its `#[rustfmt::skip]` line and its "
        "known number of lines"])
