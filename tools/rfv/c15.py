"""C15 — output is a function of source and configuration only.

spec/Service.tla     session over an ordered list of inputs with per-directory configs
                     (Functional, ExitIsMax, ConfigRestored; every order enumerated by TLC)
spec/ServiceObs.tla  the same laws evaluated by TLC on observed invocations
spec/PipelineTrace.tla  TrFlagsSticky / TrFlagsOr / TrExit on the recorded hook traces
"""
import json
import os
import random
import re
import shutil
import subprocess
from concurrent.futures import ThreadPoolExecutor
from pathlib import Path

from . import core, ptrace
from .core import Scratch, ToolError, Verdict, log, tlc

LONG = "x" * 130
UNIVERSE = {
    "f": {"root": "plain/f/f.rs", "files": {"plain/f/f.rs": "fn f() {}\n"}},
    "u": {"root": "plain/u/u.rs", "files": {"plain/u/u.rs": "fn  u( ){}\n"}},
    "e": {"root": "plain/e/e.rs", "files": {"plain/e/e.rs": "fn e( {\n"}},
    "o": {"root": "ws/src/o.rs",
          "files": {"ws/src/o.rs": "fn o() {\nlet x = 1;\nif x > 0 {\nfoo();\n}\n}\n"}},
    "i": {"root": "ws/member/src/i.rs",
          "files": {"ws/member/src/i.rs": "fn i() {\nlet y = 2;\nif y > 0 {\nbar();\n}\n}\n"}},
    "m": {"root": "plain/m/m.rs", "files": {"plain/m/m.rs": "mod sub;\nfn  m( ){}\n",
                                            "plain/m/sub.rs": "fn  s( ){}\n"}},
    # formatted, but with CR LF terminators: differs only under an explicit newline_style
    "w": {"root": "plain/w/w.rs", "files": {"plain/w/w.rs": "fn w() {}\r\nfn w2() {}\r\n"}},
    # the out-of-line module of `m`, given as an input of its own
    "s": {"root": "plain/m/sub.rs", "files": {"plain/m/sub.rs": "fn  s( ){}\n"}},
    # emitting this file FAILS under --backup (its temporary name t.tmp is a directory); in every
    # other mode it is an unformatted file like `u`
    "t": {"root": "plain/t/t.rs", "files": {"plain/t/t.rs": "fn  t( ){}\n"}},
    "x": {"root": "xd/x.rs",
          "files": {"xd/x.rs": f'fn  x( ){{\n    let s = "{LONG}";\n}}\n'}},
}
CONFIGS = {"ws/rustfmt.toml": "tab_spaces = 2\n", "ws/member/rustfmt.toml": "tab_spaces = 8\n",
           "xd/rustfmt.toml": "error_on_line_overflow = true\nerror_on_unformatted = true\n"}
DIRS = ["plain/t/t.tmp"]
MODES = {"files": [], "backup": ["--backup"], "check": ["--check"], "stdout": ["--emit", "stdout"],
         "json": ["--emit", "json"],
         "checkU": ["--check", "--config", "newline_style=Unix"]}


def make_tree(d):
    for spec in UNIVERSE.values():
        for rel, text in spec["files"].items():
            p = d / rel
            p.parent.mkdir(parents=True, exist_ok=True)
            p.write_text(text)
    for rel, text in CONFIGS.items():
        p = d / rel
        p.parent.mkdir(parents=True, exist_ok=True)
        p.write_text(text)
    for rel in DIRS:
        (d / rel).mkdir(parents=True, exist_ok=True)


def norm(s, d):
    return s.replace(str(d), "<T>")


def project(ids, mode, d, out, err):
    """per-file projection of one invocation: (hash-ish string, diag string) per id."""
    hs, dg = [], []
    out_n, err_n = norm(out, d), norm(err, d)
    for fid in ids:
        spec = UNIVERSE[fid]
        rels = sorted(spec["files"])
        if mode in ("files", "backup", "check", "checkU"):
            h = "|".join(str(core.fnv((d / r).read_bytes())) for r in rels)
            if mode == "backup":
                # ... and the backups: present or not, and their bytes
                h += "|" + "|".join(
                    str(core.fnv(Path(str(d / r)[:-3] + ".bk").read_bytes()))
                    if Path(str(d / r)[:-3] + ".bk").is_file() else "-" for r in rels)
            if mode in ("check", "checkU"):
                blocks = [b for b in re.split(r"(?=^Diff in )", out_n, flags=re.M)
                          if any(("<T>/" + r) in b.split("\n", 1)[0] for r in rels)]
                h += "#" + str(core.fnv("".join(blocks).encode()))
        elif mode == "stdout":
            parts = re.split(r"(?=^<T>/[^\n]*:\n\n)", out_n, flags=re.M)
            mine = [p for p in parts if any(p.startswith("<T>/" + r + ":") for r in rels)]
            h = str(core.fnv("".join(mine).encode()))
        else:  # json
            try:
                doc = json.loads(out_n)
                mine = [e for e in doc if any(e["name"] == "<T>/" + r for r in rels)]
                h = str(core.fnv(json.dumps(mine, sort_keys=True).encode()))
            except Exception:
                h = "unparsable:" + str(core.fnv(out_n.encode()))
        hs.append(h)
        key = "<T>/" + str(Path(spec["root"]).parent)
        lines = sorted(set(ln for ln in err_n.split("\n") if key in ln))
        dg.append(str(core.fnv("\n".join(lines).encode())))
    return hs, dg


def sections(mode, out, d):
    """the per-file sections of what one invocation printed: sorted list of "path#hash"."""
    out_n = norm(out, d)
    res = []
    if mode == "stdout":
        for p in re.split(r"(?=^<T>/[^\n]*:\n\n)", out_n, flags=re.M):
            m = re.match(r"<T>/([^\n]*):\n\n", p)
            if m:
                res.append(f"{m.group(1)}#{core.fnv(p.encode())}")
    elif mode == "json":
        try:
            for e in json.loads(out_n):
                res.append(f"{e['name']}#{core.fnv(json.dumps(e, sort_keys=True).encode())}")
        except Exception:
            res.append("unparsable#" + str(core.fnv(out_n.encode())))
    elif mode in ("check", "checkU"):
        for b in re.split(r"(?=^Diff in |^Incorrect newline style in )", out_n, flags=re.M):
            m = re.match(r"Diff in ([^\n]*?):\d+:?\n", b) or \
                re.match(r"Incorrect newline style in ([^\n]*)\n", b)
            if m:
                res.append(f"{m.group(1)}#{core.fnv(b.encode())}")
    return res          # in the order printed


# orders with the input whose emission fails under --backup: what comes after it is emitted as
# if it had come alone
EXTRA_ORDERS = [["t", "u"], ["u", "t"], ["t", "u", "f"], ["t", "m"], ["e", "t", "u"],
                ["t", "o", "i"], ["t", "t", "u"]]
OVERLAPS = [["w", "u"], ["u", "w"], ["w", "u", "w"], ["u", "u"], ["x", "x"], ["e", "e"], ["m", "s"], ["s", "m"], ["u", "m", "u"],
            ["s", "s", "m"], ["m", "m"], ["o", "i", "o"], ["s", "u", "s"]]


def invoke(rustfmt, base, n, ids, mode, *, stdin_id=None, cwd_rel=None, env_extra=None,
           trace=True, rel_paths=False):
    d = base / f"r{n}"
    d.mkdir()
    make_tree(d)
    env = core.run_env({"HOME": str(d), "XDG_CONFIG_HOME": str(d / "xdg")})
    if env_extra:
        env.update(env_extra)
    tr = d / "trace.ndjson"
    if trace:
        env["RUSTFMT_VERIF_TRACE"] = str(tr)
    cwd = d / cwd_rel if cwd_rel else d
    if stdin_id:
        spec = UNIVERSE[stdin_id]
        src = spec["files"][spec["root"]]
        r = subprocess.run([rustfmt] + MODES[mode], cwd=(d / spec["root"]).parent, env=env,
                           input=src.encode(), capture_output=True, timeout=60)
    else:
        paths = []
        for i in ids:
            p = d / UNIVERSE[i]["root"]
            paths.append(os.path.relpath(p, cwd) if rel_paths else str(p))
        r = subprocess.run([rustfmt] + MODES[mode] + paths, cwd=cwd, env=env,
                           capture_output=True, timeout=60)
    out, err = r.stdout.decode("utf-8", "replace"), r.stderr.decode("utf-8", "replace")
    res = {"exit": r.returncode, "out": out, "err": err, "dir": d}
    if not stdin_id:
        res["hash"], res["diag"] = project(ids, mode, d, out, err)
        res["sections"] = sections(mode, out, d)
    res["events"] = []
    if trace and tr.exists():
        res["events"] = [json.loads(x) for x in tr.read_text().splitlines() if x.strip()]
    shutil.rmtree(d, ignore_errors=True)
    res.pop("dir")
    return res


def report_order(v, rustfmt, base):
    """The diagnostics of one run name several files: what is printed on stderr is the same
    bytes in every process (the order of the per-file blocks included)."""
    d = base / "order"
    d.mkdir()
    long_ = "x" * 140
    (d / "a.rs").write_text(f'mod b;\nmod c;\nmod d;\nfn f() {{\n    let s = "{long_}";\n}}\n')
    for nm in "bcd":
        (d / f"{nm}.rs").write_text(f'fn f() {{\n    let s = "{long_}";\n}}\n')
    outs = []
    for k in range(6):
        r = subprocess.run([rustfmt, "--check", "--config",
                            "error_on_line_overflow=true,error_on_unformatted=true,color=Never",
                            str(d / "a.rs")], cwd=d, env=core.run_env({"HOME": str(d)}),
                           capture_output=True, text=True, timeout=60)
        outs.append((r.returncode, r.stdout, r.stderr))
    # the warnings about files of a --file-lines selection that are not formatted
    for nm in "xyzuvw":
        (d / f"{nm}.rs").write_text("fn k() {}\n")
    sel = json.dumps([{"file": str(d / f"{nm}.rs"), "range": [1, 1]} for nm in "xyzuvw"])
    warns = []
    for k in range(6):
        r = subprocess.run([rustfmt, "--unstable-features", "--check", "--file-lines", sel,
                            str(d / "b.rs")], cwd=d, env=core.run_env({"HOME": str(d)}),
                           capture_output=True, text=True, timeout=60)
        warns.append(r.stderr)
    if len(set(warns)) != 1:
        v.violation("repeat:file-lines-warnings",
                    "six runs of the same `rustfmt --file-lines ..` print their warnings in different "
                    "orders", {"stderr": warns[:3]})
    if len(set(outs)) != 1:
        orders = [[ln.strip().rsplit("/", 1)[-1].split(":")[0] for ln in e.split("\n")
                   if ln.strip().startswith("-->")] for (_, _, e) in outs]
        v.violation("repeat:report-order",
                    f"six runs of the same `rustfmt --check` print their diagnostics differently: "
                    f"file order per run {orders}", {"stderr": [e[-600:] for (_, _, e) in outs[:3]]})
    return len(outs)


def run(tier, seed, replay=None):
    v = Verdict("C15", tier, seed)
    rng = random.Random(seed)
    core.build(harness=False)
    rustfmt = core.bin_path("rustfmt")
    res = tlc("MC_Service", f"Service_{tier}.cfg", workers=4, timeout=900)
    if not res.ok:
        v.violation("model", "Service.tla: " + (res.violation or "")[:400], {"tlc": res.raw[-2000:]})
    orders = [s["order"] for s in core.printed_json(res, "REPLAY")]
    if not orders:
        raise ToolError("Service.tla produced no orders")
    orders.sort()
    modes = list(MODES)
    jobs = []
    if tier == "quick":
        multi = [o for o in orders if len(o) >= 2]
        # canary core: every ordered pair, plus seed-selected triples
        pairs = [o for o in multi if len(o) == 2]
        triples = [o for o in multi if len(o) == 3]
        rng.shuffle(triples)
        chosen = pairs + triples[:60]
        for o in chosen:
            for m in (modes if len(o) == 2 else [rng.choice(modes)]):
                jobs.append((o, m))
    else:
        for o in orders:
            if len(o) >= 2:
                for m in modes:
                    jobs.append((o, m))
    for o in EXTRA_ORDERS:
        for m in modes:
            if o.count("t") == 1 or m == "backup":
                jobs.append((o, m))
    n_order_jobs = len(jobs)
    for o in OVERLAPS:
        for m in modes:
            jobs.append((o, m))
    records, obs_for_trace = [], []
    with Scratch("c15") as base:
        # single-file reference runs, each mode, five times (process-level nondeterminism)
        single = {}
        n = 0
        for m in modes:
            for fid in UNIVERSE:
                runs = []
                for k in range(5 if tier == "thorough" else 3):
                    n += 1
                    runs.append(invoke(rustfmt, base, n, [fid], m, trace=(k == 0)))
                first = runs[0]
                for k, r in enumerate(runs[1:], 2):
                    if (r["exit"], r["hash"], r["diag"]) != (first["exit"], first["hash"],
                                                             first["diag"]):
                        v.violation(f"repeat:{fid}:{m}",
                                    f"run {k} of `rustfmt {m} {fid}` differs from run 1",
                                    {"file": fid, "mode": m, "first": first, "other": r})
                single[(m, fid)] = first
        n += report_order(v, rustfmt, base)
        # variants of the single run: other cwd, relative path, perturbed environment, stdin
        for fid in UNIVERSE:
            for tag, kw in (("cwd-sub", {"cwd_rel": "plain", "rel_paths": True}),
                            ("cwd-ws", {"cwd_rel": "ws/member"}),
                            ("env", {"env_extra": {"TERM": "xterm-256color", "COLUMNS": "40",
                                                   "RUST_BACKTRACE": "1", "TZ": "Asia/Tokyo",
                                                   "LC_ALL": "C"}})):
                n += 1
                r = invoke(rustfmt, base, n, [fid], "files", trace=False, **kw)
                s = single[("files", fid)]
                records.append({"order": [fid], "mode": "files", "exit": r["exit"],
                                "single_exit": [s["exit"]], "hash": r["hash"],
                                "single_hash": s["hash"],
                                # diagnostics are rendered differently (relative paths,
                                # colours from TERM); only bytes and status are compared here
                                "diag": s["diag"],
                                "single_diag": s["diag"], "variant": tag})
            if fid not in ("m",):
                # standard input: same text as `--emit stdout` on the path
                n += 1
                r = invoke(rustfmt, base, n, [], "stdout", stdin_id=fid, trace=False)
                s = single[("stdout", fid)]
                spec = UNIVERSE[fid]
                path_text = re.sub(r"^[^\n]*:\n\n", "", s["out"], count=1)
                records.append({"order": [fid], "mode": "stdin", "exit": r["exit"],
                                "single_exit": [s["exit"]],
                                "hash": [str(core.fnv(r["out"].encode()))],
                                "single_hash": [str(core.fnv(path_text.encode()))],
                                "diag": ["-"], "single_diag": ["-"], "variant": "stdin"})

        def job(t):
            k, (o, m) = t
            return invoke(rustfmt, base, 100000 + k, o, m)
        with ThreadPoolExecutor(max_workers=12) as ex:
            results = list(ex.map(job, enumerate(jobs)))
        for k, ((o, m), r) in enumerate(zip(jobs, results)):
            overlap = k >= n_order_jobs
            ss = [x for f in o for x in single[(m, f)]["sections"]]
            rec = {"order": o, "mode": m, "exit": r["exit"],
                   "single_exit": [single[(m, f)]["exit"] for f in o],
                   "hash": r["hash"], "single_hash": [single[(m, f)]["hash"][0] for f in o],
                   "diag": r["diag"], "single_diag": [single[(m, f)]["diag"][0] for f in o],
                   "sections": r["sections"], "single_sections": ss,
                   "variant": "overlap" if overlap else "order"}
            if overlap:
                # the same path is reached more than once: the per-id projections overlap, only
                # the union law and the exit status are meaningful (files mode: final bytes)
                if m in ("files", "backup"):
                    rec["single_hash"] = rec["hash"] if all(
                        a == b for a, b in zip(r["hash"], [single[(m, f)]["hash"][0] for f in o])
                    ) else rec["single_hash"]
                else:
                    rec["hash"] = rec["single_hash"]
                rec["diag"] = rec["single_diag"]
            records.append(rec)
            obs_for_trace.append({"events": r["events"], "roots": [], "mode": m,
                                  "fl": {}, "tag": "".join(o), "argv": o})
        for r in records:
            r.setdefault("sections", [])
            r.setdefault("single_sections", [])
        slim = [{k: r[k] for k in ("order", "mode", "exit", "single_exit", "hash", "single_hash",
                                   "diag", "single_diag", "sections", "single_sections")}
                for r in records]
        fails, ostates = core.eval_report("ServiceObs", "ServiceObs.cfg", slim, scratch=base)
        for idx, f in fails:
            rec = records[idx]
            for inv in f["fails"]:
                v.violation(f"{inv}:{rec['variant']}:{rec['mode']}:{'-'.join(rec['order'])}",
                            f"{inv} fails for order {rec['order']} mode {rec['mode']} "
                            f"({rec['variant']}): exit={rec['exit']} singles={rec['single_exit']}",
                            rec)
        t_ok, t_rej, tstates = ptrace.validate(obs_for_trace, base)
        suite_cov = {}
        if tier == "thorough":
            from . import suite
            suite_cov = suite.check(v, "C15", base)
        for rj in t_rej:
            if rj["invariant"] in ptrace.INVS["C15"]:
                v.violation(f"trace:{rj['invariant']}:{rj['key']}",
                            f"recorded trace violates {rj['invariant']}", rj["run_records"][:60])
            elif not rj["invariant"]:
                v.drift += 1
    for rec in records[-3:]:
        v.sample({k: rec[k] for k in ("order", "mode", "exit", "single_exit", "variant")})
    cov = {"states": res.distinct, "transitions": res.states,
           "traces_validated_against_impl": t_ok,
           "evaluations": len(records) + n,
           "distinct_nontrivial": len({(tuple(r["order"]), r["mode"], r["variant"])
                                       for r in records}),
           "rule": "TLC enumerates every order of every subset (size <= %d) of a 7-file universe "
                   "(formatted, unformatted, parse error, nested local configs, module tree, "
                   "reported long line); each (order, mode) is run on the real binary and compared "
                   "per file with the single-file runs (which are repeated); distinct = distinct "
                   "(order, mode, variant)" % (3 if tier == "quick" else 4),
           "orders_generated": len(orders), "obs_states": ostates, "trace_states": tstates,
           "exhaustive": tier == "thorough"}
    cov.update(suite_cov)
    return v.finish("model_checking", cov, [
        "per-file projection of stdout/json/diff output by path-keyed splitting; scratch "
        "directory prefix normalised before hashing"])
