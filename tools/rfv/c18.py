"""C18 — cargo fmt formats the right targets with the right editions.

spec/CargoFmt.tla: declarative selection/closure/grouping vs the operational
transcription of get_targets_* / run_rustfmt, evaluated by TLC on every scenario
of a fixed universe of workspaces; each scenario is materialised (path-only, so
`cargo metadata --offline` works) and the real cargo-fmt is run with a recording
stand-in for rustfmt; TLC judges the observed invocations and exit status.
"""
import itertools
import json
import os
import random
import shutil
import stat
import subprocess
from concurrent.futures import ThreadPoolExecutor
from pathlib import Path

from . import core
from .core import Scratch, ToolError, Verdict, log

STANDIN = """#!/usr/bin/env python3
import json, os, sys
args = sys.argv[1:]
with open(os.environ["STANDIN_LOG"], "a") as f:
    f.write(json.dumps(args) + "\\n")
ed = args[args.index("--edition") + 1] if "--edition" in args else "none"
st = int(json.loads(os.environ.get("STANDIN_STATUS", "{}")).get(ed, 0))
if st == 9:
    os.kill(os.getpid(), 9)
sys.exit(st)
"""
TARGET_FILES = {"lib": "src/lib.rs", "bin": "src/main.rs", "example": "examples/ex.rs",
                "test": "tests/t.rs", "bench": "benches/b.rs", "custom-build": "build.rs"}
PALETTE = {
    "A": {"edition": "2021", "targets": ["lib"], "dep": "none"},
    "B": {"edition": "2015", "targets": ["lib", "bin", "custom-build"], "dep": "ext"},
    "C": {"edition": "2018", "targets": ["bin", "example", "test"], "dep": "next"},
    "D": {"edition": "2021", "targets": ["lib", "bench"], "dep": "ext"},
    # a binary whose root file (ws/common/main.rs) is shared with other packages
    "E": {"edition": "2018", "targets": ["lib", "shared"], "dep": "none"},
    "F": {"edition": "2021", "targets": ["shared"], "dep": "none"},
}


def workspace(types, virtual, ext_ed, ext_dep, ext_in_ws=False):
    pk = []
    ws = ["ws"]
    # the path dependency `ext` lives outside the workspace directory, or below it without being
    # a member (it has a [workspace] table of its own)
    extdir = ws + ["vendor", "ext"] if ext_in_ws else ["ext"]
    n = len(types)
    for i, t in enumerate(types):
        spec = PALETTE[t]
        d = ws + [f"m{i + 1}"]
        deps = []
        if spec["dep"] == "ext":
            deps.append({"name": "ext", "dir": extdir})
        if spec["dep"] == "next" and n > 1:
            j = (i + 1) % n
            deps.append({"name": f"m{j + 1}", "dir": ws + [f"m{j + 1}"]})
        pk.append({"name": f"m{i + 1}", "dir": d, "member": True, "edition": spec["edition"],
                   "targets": [{"kind": k, "path": (ws + ["common", "main.rs"]) if k == "shared"
                                else d + TARGET_FILES[k].split("/")}
                               for k in spec["targets"]],
                   "deps": deps})
    if not virtual:
        pk.append({"name": "rootpkg", "dir": ws, "member": True, "edition": "2018",
                   "targets": [{"kind": "lib", "path": ws + ["src", "lib.rs"]}], "deps": []})
    if any(PALETTE[t]["dep"] == "ext" for t in types):
        deps = [{"name": "ext2", "dir": ["ext2"]}] if ext_dep else []
        pk.append({"name": "ext", "dir": extdir, "member": False, "edition": ext_ed,
                   "targets": [{"kind": "lib", "path": extdir + ["src", "lib.rs"]}], "deps": deps})
        if ext_dep:
            pk.append({"name": "ext2", "dir": ["ext2"], "member": False, "edition": "2015",
                       "targets": [{"kind": "lib", "path": ["ext2", "src", "lib.rs"]}],
                       "deps": [{"name": "ext", "dir": extdir}]})   # cyclic via dev-dependency
    return {"packages": pk, "ws_root": ws, "virtual": virtual}


def universe():
    out = []
    combos = [t for n in (1, 2, 3) for t in itertools.product("ABCD", repeat=n)]
    combos += [tuple(x) for x in ("E", "F", "EF", "FE", "EE", "FF", "EFA", "AEF", "EFC", "FBE")]
    # four members: every member type at once, in two orders, and with the shared-root types
    combos += [tuple(x) for x in ("ABCD", "DCBA", "AEFB", "CCDD", "BADC")]
    for types in combos:
        for _once in (0,):
            for virtual in (True, False):
                for ext_ed, ext_dep, ext_in in (("2021", False, False), ("2018", True, False),
                                            ("2018", False, True)):
                    if not any(PALETTE[t]["dep"] == "ext" for t in types) and (ext_dep or ext_in):
                        continue
                    w = workspace(types, virtual, ext_ed, ext_dep, ext_in)
                    names = [p["name"] for p in w["packages"] if p["member"]]
                    strategies = [("root", []), ("all", []), ("some", [names[0]]),
                                  ("some", ["nosuch"])]
                    if len(names) > 1:
                        strategies.append(("some", [names[0], names[1]]))
                    cwds = [["ws"], ["ws", "m1"], ["ws", "m1", "src"], ["ws", "src"], ["ws", "docs", "x"]]
                    for (st, hit) in strategies:
                        for cwd in cwds:
                            sc = dict(w)
                            sc.update({"strategy": st, "hit": hit, "cwd": cwd,
                                       "types": "".join(types), "mp": "none"})
                            out.append(sc)
                    # an unusable --manifest-path, given from inside a perfectly good package
                    if len(types) <= 2 and ext_ed == "2021":
                        for mp in ("missing", "malformed"):
                            for (st, hit) in strategies[:3]:
                                for cwd in (["ws"], ["ws", "m1"]):
                                    sc = dict(w)
                                    sc.update({"strategy": st, "hit": hit, "cwd": cwd,
                                               "types": "".join(types), "mp": mp})
                                    out.append(sc)
    return out


def manifest(p, sc, base):
    d = base.joinpath(*p["dir"])
    lines = []
    if p["name"] == "rootpkg" or not (p["dir"] == sc["ws_root"]):
        lines += ["[package]", f'name = "{p["name"]}"', 'version = "0.1.0"',
                  f'edition = "{p["edition"]}"', "publish = false", ""]
    for t in p["targets"]:
        if t["kind"] == "shared":
            rel = os.path.relpath(base.joinpath(*t["path"]), d)
            lines += ["[[bin]]", f'name = "{p["name"]}_shared"', f'path = "{rel}"', ""]
    dev = [x for x in p["deps"] if p["name"] == "ext2"]
    normal = [x for x in p["deps"] if p["name"] != "ext2"]
    for title, ds in (("[dependencies]", normal), ("[dev-dependencies]", dev)):
        if ds:
            lines.append(title)
            for x in ds:
                rel = os.path.relpath(base.joinpath(*x["dir"]), d)
                lines.append(f'{x["name"]} = {{ path = "{rel}" }}')
            lines.append("")
    return lines


def materialise(base, sc):
    for p in sc["packages"]:
        d = base.joinpath(*p["dir"])
        d.mkdir(parents=True, exist_ok=True)
        for t in p["targets"]:
            f = base.joinpath(*t["path"])
            f.parent.mkdir(parents=True, exist_ok=True)
            f.write_text("fn main() {}\n" if t["kind"] != "lib" else "pub fn f() {}\n")
        lines = manifest(p, sc, base)
        if p["dir"] == sc["ws_root"]:
            continue
        if not p["member"]:
            lines.append("[workspace]")
        (d / "Cargo.toml").write_text("\n".join(lines) + "\n")
    members = [p for p in sc["packages"] if p["member"] and p["dir"] != sc["ws_root"]]
    root = base.joinpath(*sc["ws_root"])
    lines = []
    rootp = [p for p in sc["packages"] if p["dir"] == sc["ws_root"]]
    if rootp:
        lines += manifest(rootp[0], sc, base)
    lines += ["[workspace]", "members = [" + ", ".join(f'"{p["dir"][-1]}"' for p in members) + "]"]
    inside = [p for p in sc["packages"] if not p["member"] and p["dir"][:len(sc["ws_root"])] == sc["ws_root"]]
    if inside:
        lines.append("exclude = [" + ", ".join('"' + "/".join(p["dir"][len(sc["ws_root"]):]) + '"'
                                                for p in inside) + "]")
    (root / "Cargo.toml").write_text("\n".join(lines) + "\n")
    base.joinpath(*sc["cwd"]).mkdir(parents=True, exist_ok=True)


def run_one(t):
    idx, sc, base0, tool, standin = t
    base = (base0 / f"s{idx}").resolve()
    base.mkdir()
    materialise(base, sc)
    lg = base / "log.ndjson"
    env = core.run_env({"RUSTFMT": str(standin), "STANDIN_LOG": str(lg),
                        "STANDIN_STATUS": json.dumps({e: s for e, s in sc["status"]}),
                        "HOME": str(base), "CARGO_TARGET_DIR": str(base / "target")})
    argv = [tool, "fmt"]
    if sc.get("mp", "none") != "none":
        (base / "bad").mkdir()
        if sc["mp"] == "malformed":
            (base / "bad" / "Cargo.toml").write_text("[package\nname = \n")
        argv += ["--manifest-path", str(base / "bad" / "Cargo.toml")]
    if sc["strategy"] == "all":
        argv.append("--all")
    for h in sc["hit"] if sc["strategy"] == "some" else []:
        argv += ["-p", h]
    argv += ["--", "--config", "max_width=90"]
    try:
        r = subprocess.run(argv, cwd=base.joinpath(*sc["cwd"]), env=env, capture_output=True,
                           timeout=120)
        code, err = r.returncode, r.stderr.decode("utf-8", "replace")
    except subprocess.TimeoutExpired:
        code, err = 124, "timeout"
    calls = [json.loads(x) for x in lg.read_text().splitlines()] if lg.exists() else []
    inv, args_ok = [], True
    for a in calls:
        if "--edition" not in a:
            args_ok = False
            continue
        i = a.index("--edition")
        files = []
        for f in a[:i]:
            try:
                files.append(list(Path(f).resolve().relative_to(base).parts))
            except ValueError:
                files.append(["<outside>", f])
        inv.append({"edition": a[i + 1], "files": files})
        if a[i + 2:] != ["--config", "max_width=90"]:
            args_ok = False
    shutil.rmtree(base, ignore_errors=True)
    return {"inv": inv, "exit": code, "args_ok": args_ok, "stderr": err[:800]}


def same_name_dependencies(v, base, tool, standin):
    """`every local path dependency, transitively': two members depend on two DIFFERENT local
    packages that share their name (two versions of a crate in different directories), one of
    which depends on a third package.  --all formats the root file of each of them once."""
    d = (base / "samename").resolve()

    def w(rel, text):
        p = d / rel
        p.parent.mkdir(parents=True, exist_ok=True)
        p.write_text(text)
    w("ws/Cargo.toml", '[workspace]\nmembers = ["a", "b"]\nresolver = "2"\n')
    w("ws/a/Cargo.toml", '[package]\nname = "a"\nversion = "0.1.0"\nedition = "2021"\n'
      '[dependencies]\nutil = { path = "../../ext1/util" }\n')
    w("ws/b/Cargo.toml", '[package]\nname = "b"\nversion = "0.1.0"\nedition = "2018"\n'
      '[dependencies]\nutil2 = { package = "util", path = "../../ext2/util", version = "0.2.0" }\n')
    w("ext1/util/Cargo.toml", '[package]\nname = "util"\nversion = "0.1.0"\nedition = "2021"\n')
    w("ext2/util/Cargo.toml", '[package]\nname = "util"\nversion = "0.2.0"\nedition = "2021"\n'
      '[dependencies]\nleaf = { path = "../leaf" }\n')
    w("ext2/leaf/Cargo.toml", '[package]\nname = "leaf"\nversion = "0.1.0"\nedition = "2015"\n')
    roots = ["ws/a/src/lib.rs", "ws/b/src/lib.rs", "ext1/util/src/lib.rs", "ext2/util/src/lib.rs",
             "ext2/leaf/src/lib.rs"]
    for r in roots:
        w(r, "fn  k( ){}\n")
    n = 0
    for order in (["a", "b"], ["b", "a"]):
        w("ws/Cargo.toml", f'[workspace]\nmembers = ["{order[0]}", "{order[1]}"]\nresolver = "2"\n')
        lg = d / "log.ndjson"
        if lg.exists():
            lg.unlink()
        env = core.run_env({"RUSTFMT": str(standin), "STANDIN_LOG": str(lg), "STANDIN_STATUS": "{}",
                            "HOME": str(d), "CARGO_TARGET_DIR": str(d / "target")})
        r = subprocess.run([tool, "fmt", "--all"], cwd=d / "ws", env=env, capture_output=True,
                           timeout=120)
        n += 1
        seen = []
        for ln in (lg.read_text().splitlines() if lg.exists() else []):
            a = json.loads(ln)
            seen += [str(Path(x).resolve().relative_to(d)) for x in a[:a.index("--edition")]
                     if x.endswith(".rs")] if "--edition" in a else []
        if sorted(seen) != sorted(roots) or r.returncode != 0:
            v.violation(f"samename:{'-'.join(order)}",
                        f"cargo fmt --all with two local dependencies named `util` (members in the "
                        f"order {order}): formatted {sorted(seen)}, expected {sorted(roots)}, exit "
                        f"{r.returncode}", {"stderr": r.stderr.decode('utf-8', 'replace')[-800:]})
    return n


def all_with_package(v, base, tool, standin):
    """--all together with -p: the two selection flags combined select every package (that is
    what --all says) or, at the very least, the named one -- never just the package of the
    working directory."""
    d = (base / "allp").resolve()
    for m, ed in (("m1", "2015"), ("m2", "2021")):
        (d / "ws" / m / "src").mkdir(parents=True)
        (d / "ws" / m / "Cargo.toml").write_text(
            f'[package]\nname = "{m}"\nversion = "0.1.0"\nedition = "{ed}"\n')
        (d / "ws" / m / "src" / "lib.rs").write_text("fn  k( ){}\n")
    (d / "ws" / "Cargo.toml").write_text('[workspace]\nmembers = ["m1", "m2"]\nresolver = "2"\n')
    n = 0
    for flags in (["--all", "-p", "m2"], ["-p", "m2", "--all"], ["-p", "m2", "-p", "m2"],
                  ["-p", "m2", "m1", "m2"]):
        for cwd in ("ws/m1", "ws"):
            lg = d / "log.ndjson"
            if lg.exists():
                lg.unlink()
            env = core.run_env({"RUSTFMT": str(standin), "STANDIN_LOG": str(lg), "STANDIN_STATUS": "{}",
                                "HOME": str(d), "CARGO_TARGET_DIR": str(d / "target")})
            r = subprocess.run([tool, "fmt"] + flags, cwd=d / cwd, env=env, capture_output=True,
                               timeout=120)
            n += 1
            seen = set()
            for ln in (lg.read_text().splitlines() if lg.exists() else []):
                a = json.loads(ln)
                if "--edition" in a:
                    seen |= {str(Path(x).resolve().relative_to(d)) for x in a[:a.index("--edition")]}
            both = {"ws/m1/src/lib.rs", "ws/m2/src/lib.rs"}
            # (a package named twice is still one package)
            allowed = (both,) if "m1" in flags else (both, {"ws/m2/src/lib.rs"}) if "--all" in flags \
                else ({"ws/m2/src/lib.rs"},)
            if seen not in allowed or r.returncode != 0:
                v.violation(f"allp:{' '.join(flags)}:{cwd}",
                            f"cargo fmt {' '.join(flags)} in {cwd}: formatted {sorted(seen)} (exit "
                            f"{r.returncode}); expected every member, or at least the named one",
                            {"stderr": r.stderr.decode('utf-8', 'replace')[-600:]})
    return n


def key_of(sc):
    return (("" if sc.get("mp", "none") == "none" else f"mp={sc['mp']}:") +
            f"types={sc['types']}:virtual={sc['virtual']}:strategy={sc['strategy']}:"
            f"hit={sc['hit']}:cwd={'/'.join(sc['cwd'])}:status={sc['status']}:"
            f"ext={[p['edition'] for p in sc['packages'] if p['name'] == 'ext']}")


def run(tier, seed, replay=None):
    v = Verdict("C18", tier, seed)
    rng = random.Random(seed)
    core.build(harness=False)
    tool = core.bin_path("cargo-fmt")
    uni = universe()
    pats = [[], [["2015", 1]], [["2018", 2]], [["2021", 1]], [["2015", 9]], [["2018", 1], ["2021", 1]],
            [["2021", 9]]]
    for i, s in enumerate(uni):
        s["status"] = pats[i % len(pats)]
    if tier == "quick":
        core_s = [s for s in uni if len(s["types"]) <= 2 and s["virtual"] and s["mp"] == "none"][:120]
        core_s += [s for s in uni if s["mp"] != "none" and len(s["types"]) == 1]
        rest = [s for s in uni if s not in core_s]
        rng.shuffle(rest)
        sel = core_s + rest[:230]
    else:
        sel = uni
    fields = ("packages", "ws_root", "strategy", "hit", "cwd", "status", "mp")
    with Scratch("c18") as base:
        standin = base / "standin.py"
        standin.write_text(STANDIN)
        standin.chmod(standin.stat().st_mode | stat.S_IEXEC)
        jobs = [(i, s, base, tool, standin) for i, s in enumerate(sel)]
        with ThreadPoolExecutor(max_workers=12) as ex:
            obs = list(ex.map(run_one, jobs))
        recs = []
        for s, o in zip(sel, obs):
            r = {k: s[k] for k in fields}
            r.update({"inv": o["inv"], "exit": o["exit"]})
            recs.append(r)
        res, states = core.eval_report_all("CargoFmt", "CargoFmt.cfg", recs, scratch=base)
        # the option handling (CargoFmtArgs.tla): --check / --message-format / verbosity /
        # informational flags x what every rustfmt invocation does (succeed, fail, killed)
        n_same = same_name_dependencies(v, base, tool, standin)
        n_same += all_with_package(v, base, tool, standin)
        from . import cfauni
        (base / "args").mkdir()
        arecs = cfauni.observe(base / "args", STANDIN)
        afails, astates = cfauni.evaluate(arecs, base)
        for idx, f in afails:
            r = arecs[idx]
            if f["fails"]:
                v.violation(f"args:{','.join(sorted(f['fails']))}:{' '.join(r['_argv'])}:st={r['f']['st']}",
                            f"{sorted(f['fails'])} for `cargo {' '.join(r['_argv'])}` with every rustfmt "
                            f"invocation ending in status {r['f']['st']}: exit {r['o']['exit']}, "
                            f"command lines {r['o']['calls']}",
                            {"argv": r["_argv"], "observed": r["o"], "model": f["oper"],
                             "stderr": r["_stderr"]})
            elif f["model"]:
                v.violation(f"args-model:{','.join(sorted(f['model']))}:{' '.join(r['_argv'])}",
                            f"CargoFmtArgs.tla: the transcription itself breaks {f['model']}", f)
            else:
                v.drift += 1
    n_model = 0
    for idx, f in res:
        sc, o = sel[idx], obs[idx]
        fails = set(f["fails"])
        if "ModelAgrees" in fails:
            n_model += 1
        bad = [x for x in ("RightTargets", "RightExit", "ManifestError") if x in fails]
        if not o["args_ok"]:
            bad.append("PassThrough")
        if bad:
            sig = any(st == 9 for _, st in sc["status"])
            sub = sc["strategy"] == "root" and len(sc["cwd"]) > 2
            kind = "signal" if (bad == ["RightExit"] and sig) else \
                "subdir" if sub else "other"
            v.violation(f"{kind}:{','.join(bad)}:{key_of(sc)}",
                        f"{bad}: cargo fmt ({sc['strategy']} {sc['hit']}) in {'/'.join(sc['cwd'])} of "
                        f"workspace {sc['types']} made {o['inv']} exit {o['exit']} "
                        f"[{o['stderr'][:120]!r}]",
                        {"scenario": sc, "observed": o, "model": f})
        elif "AsModel" in fails:
            v.drift += 1
    for s, o in list(zip(sel, obs))[:3]:
        v.sample({"types": s["types"], "virtual": s["virtual"], "strategy": s["strategy"],
                  "hit": s["hit"], "cwd": "/".join(s["cwd"]), "inv": o["inv"], "exit": o["exit"]})
    cov = {"states": states, "transitions": states,
           "traces_validated_against_impl": sum(1 for _, f in res if "AsModel" not in f["fails"]),
           "evaluations": len(sel), "distinct_nontrivial": len({key_of(s) for s in sel}),
           "rule": "fixed universe: 1..3 members (and five 4-member workspaces) drawn from 6 member types (editions 2015/2018/2021, "
                   "lib/bin/example/test/bench/build-script targets, dependency on the next member "
                   "or on an out-of-workspace path dependency that may depend (cyclically) on a "
                   "second one) x virtual/rooted x {root, --all, -p m1, -p m1 -p m2, -p nosuch} x "
                   "cwd {root, member, member/src} with scripted stand-in statuses (0/1/2/killed)",
           "universe": len(uni), "model_op_differs_from_decl": n_model,
           "option_combinations": len(arecs), "same_name_dependency_runs": n_same, "option_states": astates,
           "exhaustive": tier == "thorough"}
    return v.finish("model_checking", cov, [
        "`cargo metadata --no-deps --offline` of the installed cargo describes the workspace",
        "scenario enumeration by a Python generator over a fixed universe; TLC evaluates the "
        "declarative and operational definitions on every scenario and judges the observations"])
