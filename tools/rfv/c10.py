"""C10 — import rewriting preserves what is imported.

spec/ImportsObs.tla: the denotation Leaves(run) of DESIGN.md F.2 evaluated by TLC on the
`use` items of input and output (parsed by rustc_parse in the harness) for a fixed universe
of use-declaration lists x granularity x grouping x reorder x edition x style edition.
"""
import itertools
import json
import random

from . import core, ucore
from .core import Scratch, ToolError, Verdict, log

TREES = [
    "a", "a::b", "a::b::c", "a::*", "a::b::*", "a::{b, c}", "a::{b, c::d}", "a::{self, b}",
    "a::{self}", "a::b::{self, c}", "a::{b::{c, d}, e}", "a::{b as x, c}", "a::b as x",
    "a::b as y", "a::b as _", "a::{self as s, b::{self, c}}", "a::b::c as d", "a::{}",
    "a::{b, b}", "a::{b, c, b}", "{a, b}", "{a::b, c}", "::a::b", "crate::a::b", "self::a",
    "super::a::{b, c}", "r#fn::b", "a::r#type", "a::{b::*, c::*}", "b::a", "b::{a, c as d}",
    "a::b::c::d", "a::{b::c::d, b::c::e}", "std::fmt::{self, Display}", "std::fmt",
    "std::{fmt, io}", "std::io::{self, Read as R}", "core::fmt::*",
    # aliases on the path keywords
    "crate as root", "super as parent", "super::super as gp", "{crate as k, std::fmt as f}",
    "self::a as b", "crate::a as c",
    # a nested empty list that is not the last element of its list
    "a::{b, c::{}, d}", "a::{c::{}, b}",
]
VIS = ["", "pub ", "pub(crate) ", "pub(super) ", "pub(in crate::m) ", "pub(in crate::m::n) ",
       "pub(in super::super) "]
ATTR = ["", "#[cfg(unix)]\n", "#[allow(unused)]\n"]
# elements whose path does not fit in the width that remains inside the braces
LP = "generated_bindings_for_the_platform::protocol_buffers_v3"
LONG_TREES = [
    f"crate::{{alpha::Thing, {LP}::Message, zeta}}",
    f"a::{{b, {LP}::{{Message, Other}}, c}}",
    f"a::{{b::{{c, {LP}::deeper_module_name::Deep}}, d}}",
    f"{LP}::{{Message, another_quite_long_module_name::AnotherQuiteLongTypeName}}",
    f"a::{{{LP}::Message as Msg, b}}",
    f"a::{{b, {LP}::*}}",
]
GRAN = ["Preserve", "Item", "Module", "Crate", "One"]
GROUP = ["Preserve", "StdExternalCrate", "One"]


def option_vectors(tier):
    out = []
    for g in GRAN:
        for gi in GROUP:
            for ro in (True, False):
                for ed, se in (("2015", "2021"), ("2018", "2024"), ("2018", "2015")):
                    out.append({"imports_granularity": g, "group_imports": gi,
                                "reorder_imports": ro, "edition": ed, "style_edition": se})
    return out


def universe(rng, tier):
    lists = []
    # every ordered pair of trees (plain visibility), the heart of merge / flatten
    for a, b in itertools.product(TREES, repeat=2):
        lists.append([("", "", a), ("", "", b)])
    # visibility / attribute mixes on mergeable pairs
    mergeable = ["a::b", "a::c", "a::{d, e}", "a::b::c", "a::*"]
    for (v1, v2) in itertools.product(VIS, repeat=2):
        for (t1, t2) in (("a::b", "a::c"), ("a::b::c", "a::{d, e}"), ("a::b", "a::b")):
            lists.append([("", v1, t1), ("", v2, t2)])
    for (a1, a2) in itertools.product(ATTR, repeat=2):
        for (t1, t2) in (("a::b", "a::c"), ("a::{d, e}", "a::b::c"), ("a::b", "a::b")):
            lists.append([(a1, "", t1), (a2, "", t2)])
    # triples, and runs separated by a non-import item
    for _ in range(300 if tier == "quick" else 4000):
        ts = [rng.choice(TREES) for _ in range(3)]
        vs = [rng.choice(VIS[:3]) if rng.random() < 0.3 else "" for _ in range(3)]
        lists.append([("", v, t) for v, t in zip(vs, ts)])
    for _ in range(120 if tier == "quick" else 1500):
        ts = [rng.choice(mergeable) for _ in range(4)]
        lists.append([("", "", ts[0]), ("", "", ts[1]), "ITEM", ("", "", ts[2]), ("", "", ts[3])])
    return lists


def render(lst):
    out = []
    for x in lst:
        if x == "ITEM":
            out.append("fn between() {}")
        else:
            attr, vis, tree = x
            out.append(f"{attr}{vis}use {tree};")
    return "\n".join(out) + "\n"


# ---- spec/UseTree.tla: scenarios printed by TLC ------------------------------------------------
NM = {1: "a", 2: "b", 3: "c"}
AL = {0: "", 1: " as x", 2: " as y"}


def ut_seg(s):
    k = s["k"]
    if k == "id":
        return NM[s["n"]] + AL[s["a"]]
    if k == "self":
        return "self" + AL[s["a"]]
    if k == "glob":
        return "*"
    if k == "list":
        return "{" + ", ".join(ut_path(p) for p in s["l"]) + "}"
    return k


def ut_path(p):
    return "::".join(ut_seg(s) for s in p)


def ut_render(items):
    return "".join(("pub " if it["vis"] == "pub" else "") + "use " + ut_path(it["path"]) + ";\n"
                   for it in items)


def ut_leaves(items):
    """Leaves of UseTree.tla on the JSON form of model trees."""
    out = set()

    def walk(vis, path, prefix):
        if not path:
            return
        last, pre = path[-1], prefix + path[:-1]
        names = tuple(ut_seg(dict(x, a=0)) for x in pre)
        if last["k"] == "list":
            for q in last["l"]:
                walk(vis, q, pre)
        elif last["k"] == "self":
            if pre:
                out.add((vis, names, AL[last["a"]].strip()))
        elif last["k"] == "glob":
            out.add((vis, names, "*"))
        else:
            out.add((vis, names + (ut_seg(dict(last, a=0)),), AL[last["a"]].strip()))
    for it in items:
        walk(it["vis"], list(it["path"]), [])
    return out


def real_leaves(uses):
    out = set()

    def walk(vis, t, prefix):
        p = prefix + list(t["path"])
        if t["k"] == "nested":
            for q in t["items"]:
                walk(vis, q, p)
        elif t["k"] == "glob":
            out.add((vis, tuple(p), "*"))
        elif t["k"] == "simple":
            if len(p) > 1 and p[-1] == "self":
                p = p[:-1]
            elif p == ["self"]:
                return
            out.add((vis, tuple(p), ("as " + t["rename"]) if t["rename"] else ""))
    for it in uses:
        if it.get("use"):
            walk("pub" if it["vis"] == "pub" else "priv", it["tree"], [])
    return out


def ut_scenarios(tier, seed):
    res = core.tlc("UseTree", f"UseTree_{tier}.cfg", workers=8, timeout=3000)
    if not res.ok:
        raise ToolError(f"UseTree.tla: {res.violation}")
    scs = core.printed_json(res, "UT")
    if tier == "thorough":
        # single trees with lists of up to three elements (normalize / flatten / unique alone)
        res2 = core.tlc("UseTree", "UseTree_single.cfg", workers=8, timeout=3000)
        if not res2.ok:
            raise ToolError(f"UseTree.tla (single): {res2.violation}")
        scs += core.printed_json(res2, "UT")
        res.distinct += res2.distinct
    if tier == "quick":
        scs = [s for k, s in enumerate(scs)
               if not s["ok"] or core.fnv(json.dumps(s["items"]).encode()) % 8 == seed % 8]
    return scs, res.distinct


def run(tier, seed, replay=None):
    v = Verdict("C10", tier, seed)
    rng = random.Random(seed)
    core.build(bins=False)
    lists = universe(rng, tier)
    uts, ut_states = ut_scenarios(tier, seed)
    ut_base = len(lists)
    for s in uts:
        lists.append(("UT", s))
    opts = option_vectors(tier)
    jobs, meta = [], []
    for i, lst in enumerate(lists):
        if lst[0] == "UT":
            sc_ = lst[1]
            hp = core.fnv(json.dumps(sc_["items"]).encode())
            oo = {"imports_granularity": sc_["gran"], "group_imports": "Preserve",
                  "reorder_imports": True, "edition": "2018",
                  "style_edition": "2015" if hp % 2 else "2024", "max_width": 100}
            jobs.append({"id": len(jobs), "src": ut_render(sc_["items"]), "opts": oo,
                         "want": ["uses", "out"]})
            meta.append((i, oo))
            continue
        chosen = opts if tier == "thorough" and i < 2000 else \
            [opts[(i * 7 + k * 13) % len(opts)] for k in range(4 if tier == "quick" else 12)]
        # always include the most aggressive merging modes
        extra = [o for o in opts if o["imports_granularity"] in ("One", "Crate")
                 and o["group_imports"] == "Preserve" and o["reorder_imports"]][:2]
        for o in chosen + (extra if i % 3 == 0 else []):
            for w in ((100,) if tier == "quick" else (100, 30)):
                oo = dict(o)
                oo["max_width"] = w
                jobs.append({"id": len(jobs), "src": render(lst), "opts": oo,
                             "want": ["uses", "out"]})
                meta.append((i, oo))
    # long-path elements at widths where they cannot be laid out (both tiers)
    for t in LONG_TREES:
        for attr in ATTR[:2]:
            lists.append([(attr, "", t), ("", "", "a::q")])
            for g in GRAN:
                for w in (40, 60, 100):
                    oo = {"imports_granularity": g, "group_imports": "Preserve",
                          "reorder_imports": True, "edition": "2018",
                          "style_edition": "2024" if w == 60 else "2015", "max_width": w}
                    jobs.append({"id": len(jobs), "src": render(lists[-1]), "opts": oo,
                                 "want": ["uses", "out"]})
                    meta.append((len(lists) - 1, oo))
    n_ut = ut_agree = 0
    ut_drift = []
    with Scratch("c10") as sc:
        results = ucore.run_jobs(jobs, sc)
        recs, rmeta = [], []
        skipped = 0
        for (i, oo), o, j in zip(meta, results, jobs):
            if not o.get("ok") or o.get("session", {}).get("parsing") or o.get("uses_in") is None:
                skipped += 1
                continue
            recs.append({"inp": o["uses_in"], "out": o["uses_out"] or [],
                         "parsed": o.get("uses_out") is not None, "edition": oo["edition"]})
            rmeta.append((i, oo, j, o))
            if lists[i][0] == "UT":
                n_ut += 1
                if not lists[i][1]["wf"] and o.get("uses_out") is None:
                    ut_agree += 1     # the transcription predicts a tree that is not Rust, and it is not
                elif real_leaves(o["uses_out"] or []) != ut_leaves(lists[i][1]["out"]):
                    v.drift += 1
                    ut_drift.append(j["src"])
                else:
                    ut_agree += 1
        fails, ostates = core.eval_report("ImportsObs", "ImportsObs.cfg", recs, scratch=sc,
                                          chunk=4000)
    for idx, f in fails:
        i, oo, j, o = rmeta[idx]
        gran = oo["imports_granularity"]
        lst = lists[i]
        if lst[0] == "UT":
            lst = [("", "pub " if it["vis"] == "pub" else "", ut_path(it["path"]))
                   for it in lst[1]["items"]]
        decls = [x for x in lst if x != "ITEM"]
        alias = any(" as " in t for (_, _, t) in decls)
        # the same tree text declared twice with different visibility or attributes
        dup = any(d1[2] == d2[2] and (d1[0], d1[1]) != (d2[0], d2[1])
                  for k1, d1 in enumerate(decls) for d2 in decls[k1 + 1:])
        # the same leaf path under two different visibilities / attribute sets
        vis_mix = len({(a, vv) for (a, vv, _) in decls}) > 1
        v.violation(f"{','.join(sorted(f['fails']))}:gran={gran}:alias={alias}:vismix={vis_mix}:"
                    f"group={oo['group_imports']}:"
                    f"reorder={oo['reorder_imports']}:ed={oo['edition']}:se={oo['style_edition']}:"
                    f"w={oo['max_width']}:{json.dumps(j['src'])}",
                    f"{f['fails']}: {j['src']!r} under {gran}/{oo['group_imports']} became "
                    f"{o.get('out')!r}", {"source": j["src"], "opts": oo, "out": o.get("out")})
    if rmeta:
        i, oo, j, o = rmeta[len(rmeta) // 2]
        v.sample({"source": j["src"], "opts": oo, "out": o.get("out")})
    cov = {"states": ostates, "transitions": ostates,
           "traces_validated_against_impl": len(recs) - len(fails),
           "evaluations": len(jobs),
           "distinct_nontrivial": len({(j["src"], json.dumps(oo, sort_keys=True))
                                       for (_, oo, j, o) in rmeta
                                       if o.get("out") != j["src"]}),
           "rule": "fixed universe: every ordered pair of %d use trees (nested lists to depth 3, "
                   "globs, self/super/crate, aliases, underscore imports, raw identifiers, leading "
                   "::, empty lists, duplicates), visibility x visibility and attribute x attribute "
                   "mixes on mergeable pairs, seed-selected triples and two runs around a "
                   "non-import item, each under several (granularity, grouping, reorder, edition, "
                   "style edition, width) vectors; distinct_nontrivial = distinct (source, options) "
                   "whose output differs from the input" % len(TREES),
           "lists": len(lists), "skipped_runs_with_errors": skipped, "exhaustive": False,
           "model_states": ut_states, "model_scenarios_replayed": n_ut,
           "traces_replayed_into_impl": n_ut, "replay_equal_to_model": ut_agree,
           "model_drift_examples": ut_drift[:5]}
    return v.finish("model_checking", cov, [
        "rustc_parse + pprust give the use trees, visibilities and attributes of input and output",
        "runs are maximal sequences of consecutive use items (blank lines do not split runs)",
        "attached comments are not part of the denotation in this version"])
