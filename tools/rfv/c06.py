"""C06 — check mode is read-only and exact; all emit modes agree on the text."""
from . import pipe
from .c05 import run_shared


def run(tier, seed, replay=None):
    return run_shared("C06", pipe.C06_INVS, tier, seed,
                      "reports are applied to the original by independent Python appliers; "
                      "stdout / -l output compared byte for byte with hand-written expected texts")
