"""C11 — reordering is a deterministic, order-insensitive permutation.

spec/VersionSortCore.tla + VersionSort.tla  version_sort transcribed; total-preorder laws for
                                            every triple of identifiers up to a bound (TLC)
spec/OrderObs.tla    the laws on the OBSERVED comparison tables: exported version_sort, and
                     "keeps order" tables of use / mod / extern crate declarations obtained
                     by formatting every ordered pair with the real formatter
spec/ReorderObs.tla  groups formatted in every permutation: same elements with attachments,
                     no crossing of boundaries, order a function of the elements, ties stable
"""
import itertools
import json
import random
import re
import subprocess

from . import core, ucore
from .core import Scratch, ToolError, Verdict, log, tlc

ALPH = ["a", "b", "A", "B", "_", "0", "1", "2", "9"]
WITNESS = ["a01", "a1", "a001", "a10", "a9", "a01b01", "a1b1", "a01b1", "a1b01", "a_1", "a_01",
           "Aa", "aA", "__a", "a0_", "a00", "a2", "a10b", "a9b", "ab", "aB", "A_b", "a_b", "a__b",
           "b1", "b01", "B1", "a99999999999999999999", "a99999999999999999998", "a1_2", "a1_02",
           # digit runs around and beyond what a machine word holds
           "a18446744073709551614", "a18446744073709551615", "a18446744073709551616",
           "a10000000000000000000000", "a20000000000000000000000", "a09999999999999999999999",
           "a10000000000000000000000b", "a4294967295", "a4294967296"]
USE_POOL = ["a", "b", "A", "B", "a1", "a01", "a10", "a2", "_a", "a_b", "ab", "aB", "Ab", "AB", "A_B",
            "r#a", "r#fn", "a::b", "a::B", "a::*", "a::{self}", "a::{b, c}", "a::b::c", "crate::a",
            "self::a", "super::a", "::a", "a as z", "a as y", "a::b as x", "core", "std", "alloc",
            "Z", "z9", "z10", "z09", "Zz", "zZ", "ZZ",
            # underscore-led names without lower-case letters; raw / plain twins with aliases
            "_A", "_AB", "_1", "_Ab", "r#a as x", "r#a as w", "r#a::b", "a::r#b", "a as x", "A as x"]
MOD_POOL = ["a", "b", "A", "B", "a1", "a01", "a10", "a2", "_a", "a_b", "ab", "aB", "AB", "r#fn",
            "z9", "z10", "z09", "Zz"]


def names_small():
    out = []
    for n in (1, 2):
        for t in itertools.product(ALPH, repeat=n):
            s = "".join(t)
            if not s[0].isdigit():
                out.append(s)
    return out


def decl(kind, name, attach=None):
    pre = ""
    if attach == "attr":
        pre = f"#[cfg(feature = \"f_{abs(hash(name)) % 97}\")]\n"
    line = {"use": f"use {name};", "mod": f"mod {name};", "extern": f"extern crate {name};"}[kind]
    return pre + line


def ident_of(kind, name):
    """text that identifies the declaration in the output"""
    return {"use": f"use {name}", "mod": f"mod {name};", "extern": f"extern crate {name};"}[kind]


def pair_tables(pool, kind, se, sc):
    jobs = []
    idx = []
    for i, a in enumerate(pool):
        for j, b in enumerate(pool):
            if i == j:
                continue
            src = f"{decl(kind, a)}\n{decl(kind, b)}\n"
            jobs.append({"id": len(jobs), "src": src,
                         # (edition 2018: a leading `::` is significant and kept)
                         "opts": {"style_edition": se, "skip_children": True, "edition": "2018"},
                         "want": ["out"]})
            idx.append((i, j))
    res = ucore.run_jobs(jobs, sc)
    n = len(pool)
    keeps = [[True] * n for _ in range(n)]
    bad = []
    for (i, j), o in zip(idx, res):
        out = o.get("out", "") if o.get("ok") else ""
        lines = [x for x in out.split("\n") if x.strip()]
        want_ij = [f"{decl(kind, pool[i])}", f"{decl(kind, pool[j])}"]
        if lines == want_ij:
            keeps[i][j] = True
        elif lines == want_ij[::-1]:
            keeps[i][j] = False
        else:
            bad.append((pool[i], pool[j], out[:120], o.get("err") or o.get("panic")))
            keeps[i][j] = None
    # a pair whose two declarations cannot be told apart in the output (merged, rewritten) says
    # nothing about the order: the name met later is dropped from the table
    drop = set()
    for i in range(n):
        for j in range(n):
            if keeps[i][j] is None and i not in drop and j not in drop:
                drop.add(max(i, j))
    keep_idx = [i for i in range(n) if i not in drop]
    keeps = [[bool(keeps[i][j]) if keeps[i][j] is not None else True for j in keep_idx]
             for i in keep_idx]
    return keeps, bad, [pool[i] for i in keep_idx]


def group_scenarios(rng, tier):
    """base groups (kind, [names with tie class], boundaries) -> list of scenarios"""
    out = []
    small = [("use", ["b", "a", "C", "a1"]), ("use", ["a::b as x", "a::b", "a::b as y", "a::a"]),
             ("use", ["z10", "z9", "z09", "Z"]), ("mod", ["b", "a1", "a01", "A"]),
             ("extern", ["b", "a", "c"]), ("use", ["std::a", "core::b", "crate::c", "alloc::d"]),
             ("use", ["r#fn", "a", "_b", "B"]), ("mod", ["z9", "z10", "r#fn"]),
             # several renames of ONE crate: ordered by the local names
             ("extern", ["serde as zeta", "serde as alpha", "serde as mid", "other"])]
    for kind, names in small:
        perms = list(itertools.permutations(range(len(names))))
        if tier == "quick":
            rng.shuffle(perms)
            perms = perms[:8]
        out.append({"kind": kind, "names": names, "perms": perms, "bound": None})
    # boundaries inside: two runs separated by a blank line / another item / #[macro_use] / skip
    for bound in ("blank", "item", "macro_use", "skip", "macro_use_list", "macro_use_mod",
                  "macro_use_list_mod"):
        names = ["d", "c", "b", "a"]
        perms = [p for p in itertools.permutations(range(4))]
        if tier == "quick":
            rng.shuffle(perms)
            perms = perms[:6]
        kind_ = {"macro_use": "extern", "macro_use_list": "extern", "macro_use_mod": "mod",
                 "macro_use_list_mod": "mod"}.get(bound, "use")
        out.append({"kind": kind_, "names": names, "perms": perms, "bound": bound})
    # the boundaries of mod / extern crate runs hold under every group_imports setting (the
    # option regroups `use` declarations only)
    for kind in ("mod", "extern"):
        for bound in ("blank", "item"):
            for gi in ("Preserve", "StdExternalCrate", "One"):
                perms = [p for p in itertools.permutations(range(4))]
                if tier == "quick":
                    rng.shuffle(perms)
                    perms = perms[:5]
                out.append({"kind": kind, "names": ["d", "c", "b", "a"], "perms": perms,
                            "bound": bound, "opts": {"group_imports": gi}})
    # a comment at the end of the line of ONE element: it is attached to that element and moves
    # with it
    for kind in ("use", "mod", "extern"):
        names = ["d", "c", "b", "a"]
        allp = [p for p in itertools.permutations(range(4))]
        last = [p for p in allp if p[-1] == 2]
        rest = [p for p in allp if p[-1] != 2]
        if tier == "quick":
            rng.shuffle(last)
            rng.shuffle(rest)
            last, rest = last[:3], rest[:6]
        out.append({"kind": kind, "names": names, "perms": last + rest, "bound": None, "trail": 2})
    # large groups with ties (alias twins and attribute twins), several shuffles
    for size in ((24, 33) if tier == "quick" else (21, 24, 27, 33, 41, 64)):
        names = [f"p{k:02d}::q" for k in range(size - 4)]
        names += ["m::t as x", "m::t as y", "m::t", "m::t as w"]
        perms = []
        base = list(range(size))
        for _ in range(5 if tier == "quick" else 12):
            p = base[:]
            rng.shuffle(p)
            perms.append(tuple(p))
        out.append({"kind": "use", "names": names, "perms": perms, "bound": None})
    return out


# ---- the names inside ONE import list, nested lists included: an element is a leaf (str) or
# (prefix, [elements]); every arrangement (permutation of every list, at every depth) of one
# base list must format to the same text
LIST_BASES = [
    [("b", ["z", "c"]), ("b", ["d", "e"]), "a", "c"],
    [("", ["a"]), "c", "b"],
    [("p", ["x"]), "p::y", "o"],
    [("b", [("c", ["e", "d"]), "a"]), "b::a2", "B"],
    ["z10", "z9", "z09", "Z"],
    [("b", ["a", "*"]), "b::c", "a"],
    [("m", ["x", "y"]), ("", ["q", "p"]), "n"],
]


def arrangements(elems):
    """every arrangement of a list: -> list of rendered `{..}` bodies"""
    def one(e):
        if isinstance(e, str):
            return [e]
        pre, sub = e
        return [(pre + "::" if pre else "") + "{" + body + "}" for body in arrangements(sub)]
    outs = []
    for perm in itertools.permutations(range(len(elems))):
        for combo in itertools.product(*[one(elems[i]) for i in perm]):
            outs.append(", ".join(combo))
    return outs


def idents(text):
    return sorted(re.findall(r"[A-Za-z_][A-Za-z_0-9]*|\*", text.replace("use ", "", 1)))


def tie_class(kind, name):
    return re.sub(r"\s+as\s+\w+$", "", name) if kind == "use" else name


TRAIL = " // about this one"


def render_group(scn, perm):
    kind, names, bound = scn["kind"], scn["names"], scn["bound"]
    n = len(names)
    order = [names[i] for i in perm]
    lines = []
    half = n // 2
    for k, nm in enumerate(order):
        if bound and k == half:
            lines.append({"blank": "", "item": "fn boundary_item() {}",
                          "macro_use": "#[macro_use]\nextern crate boundary_mu;",
                          "macro_use_list": "#[macro_use(debug, info)]\nextern crate boundary_mu;",
                          "macro_use_mod": "#[macro_use]\nmod boundary_mu;",
                          "macro_use_list_mod": "#[macro_use(debug)]\nmod boundary_mu;",
                          "skip": "#[rustfmt::skip]\nuse   zz_skipped::{b,a};"}[bound])
        att = "attr" if (hash(nm) % 5 == 0 and kind == "use" and " as " not in nm) else None
        lines.append(decl(kind, nm, att))
        if scn.get("trail") is not None and nm == names[scn["trail"]]:
            lines[-1] += TRAIL
    return "\n".join(lines) + "\n"


def run(tier, seed, replay=None):
    v = Verdict("C11", tier, seed)
    rng = random.Random(seed)
    core.build(bins=False)
    res = tlc("MC_VersionSort", f"VersionSort_{tier}.cfg", workers=12, timeout=3000)
    if not res.ok:
        v.violation("model", "VersionSort.tla: " + (res.violation or "")[:400],
                    {"tlc": res.raw[-2000:]})
    unit = core.harness_bin("rfv-unit")
    names = names_small()
    if tier == "quick":
        rng.shuffle(names)
        names = names[:45]
    names = sorted(set(names + [w for w in WITNESS if len(w) < 12])) + \
        [w for w in WITNESS if len(w) >= 12]
    r = subprocess.run([unit, "versionsort"], input=json.dumps(names), env=core.run_env(),
                       capture_output=True, text=True)
    if r.returncode != 0:
        raise ToolError("rfv-unit versionsort failed: " + r.stderr[-1500:])
    cmp_rec = json.loads(r.stdout)
    model_names = [w for w in names if len(w) < 12]
    k = len(model_names)
    cmp_model = {"kind": "cmp", "names": [list(w) for w in model_names],
                 "table": [row[:k] for row in cmp_rec["table"][:k]], "n": k, "keeps": []}
    cmp_model["same"] = [[a == b for b in model_names] for a in model_names]
    records = [cmp_model, {"kind": "cmponly", "names": [], "table": cmp_rec["table"],
                           "n": len(names), "keeps": [],
                           "same": [[a == b for b in names] for a in names]}]
    meta = [("version_sort", model_names), ("version_sort-all", names)]
    # laws only (no transcription) for the names outside the model alphabet / bounds
    with Scratch("c11") as sc:
        n_pairs = 0
        for kind, pool in (("use", USE_POOL), ("mod", MOD_POOL), ("extern", MOD_POOL[:10])):
            pl = pool if tier == "thorough" else \
                ((pool[:16] + pool[-12:]) if kind == "use" else pool[:12])
            if kind == "extern":
                pl = [p for p in pl if not p.startswith("r#")]
            for se in ("2015", "2024"):
                keeps, bad, pl = pair_tables(pl, kind, se, sc)
                n_pairs += len(pl) * (len(pl) - 1)
                if bad:
                    log(f"[note] {kind}/{se}: {len(bad)} pairs not recognisable in the output, "
                        f"e.g. {bad[0]}")
                records.append({"kind": "before", "n": len(pl), "keeps": keeps, "names": [],
                                "table": []})
                meta.append((f"{kind}-{se}", pl))
        ofails, ostates = core.eval_report("OrderObs", "OrderObs.cfg", records, scratch=sc,
                                           timeout=2400)
        for idx, f in ofails:
            tag, pool = meta[idx]
            bad = [x for x in f["fails"] if x != "CmpAsModel"]
            if bad:
                v.violation(f"order:{tag}:{','.join(bad)}",
                            f"comparison used for {tag} is not a consistent total preorder: {bad}",
                            {"names": pool, "record": records[idx]})
            else:
                v.drift += 1
        # ---- groups in every permutation ----
        scen = group_scenarios(rng, tier)
        jobs, jmeta = [], []
        for si, scn in enumerate(scen):
            for se in ("2015", "2024"):
                for perm in scn["perms"]:
                    jobs.append({"id": len(jobs), "src": render_group(scn, perm),
                                 "opts": dict(scn.get("opts", {}), style_edition=se,
                                              skip_children=True),
                                 "want": ["out"]})
                    jmeta.append((si, se, perm))
        results = ucore.run_jobs(jobs, sc)
        grecs, gmeta = [], []
        by = {}
        for (si, se, perm), o, j in zip(jmeta, results, jobs):
            by.setdefault((si, se), []).append((perm, o, j))
        for (si, se), runs in sorted(by.items()):
            scn = scen[si]
            kind, nms = scn["kind"], scn["names"]
            n = len(nms)
            classes = {}
            tie = [classes.setdefault(tie_class(kind, x), len(classes) + 1) for x in nms]
            perms = []
            for perm, o, j in runs:
                out = o.get("out", "") if o.get("ok") else ""
                pos = []
                attach_ok, bounds_ok = True, True
                olines = out.split("\n")
                for i, nm in enumerate(nms):
                    want = decl(kind, nm).split("\n")[-1]
                    trailed = scn.get("trail") == i
                    hits = [k for k, ln in enumerate(olines)
                            if ln.strip() == want or (trailed and ln.strip() == want + TRAIL)]
                    if trailed and (len(hits) != 1 or olines[hits[0]].strip() != want + TRAIL
                                    or out.count(TRAIL.strip()) != 1):
                        attach_ok = False      # the comment is not on its element's line
                    if len(hits) != 1:
                        pos.append((10 ** 6 + i, i))
                        attach_ok = False
                        continue
                    pos.append((hits[0], i))
                    src_att = [ln for ln in j["src"].split("\n")]
                    si_ = src_att.index(want + TRAIL if trailed else want)
                    if si_ > 0 and src_att[si_ - 1].startswith("#[cfg("):
                        if hits[0] == 0 or olines[hits[0] - 1].strip() != src_att[si_ - 1]:
                            attach_ok = False
                out_order = [i + 1 for _, i in sorted(pos)]
                inp_order = [i + 1 for i in perm]
                half = n // 2
                group = [1] * n
                if scn["bound"]:
                    # elements after position `half` of THIS input order are in group 2
                    for k_, i in enumerate(perm):
                        group[i] = 1 if k_ < half else 2
                    marker = {"blank": None, "item": "fn boundary_item() {}",
                              "macro_use": "extern crate boundary_mu;",
                              "macro_use_list": "extern crate boundary_mu;",
                              "macro_use_mod": "mod boundary_mu;",
                              "macro_use_list_mod": "mod boundary_mu;",
                              "skip": "use   zz_skipped::{b,a};"}[scn["bound"]]
                    if marker and marker not in out:
                        bounds_ok = False
                perms.append({"inp": inp_order, "out": out_order, "attach_ok": attach_ok,
                              "bounds_ok": bounds_ok, "group": group})
            if scn.get("trail") is not None:
                # the element that is LAST in the input is a case of its own (a recorded defect
                # of the pinned tree: its comment stays at the end of the group)
                for cls, sel in (("trail-last", [p for p in perms if p["inp"][-1] == scn["trail"] + 1]),
                                 ("trail", [p for p in perms if p["inp"][-1] != scn["trail"] + 1])):
                    if sel:
                        grecs.append({"n": n, "tie": tie, "group": [1] * n,
                                      "perms": [{k: p[k] for k in ("inp", "out", "attach_ok",
                                                                   "bounds_ok")} for p in sel]})
                        gmeta.append((si, se, cls))
            elif scn["bound"]:
                # group membership depends on the input order: one record per permutation
                for p in perms:
                    grecs.append({"n": n, "tie": tie, "group": p["group"],
                                  "perms": [{k: p[k] for k in ("inp", "out", "attach_ok",
                                                               "bounds_ok")}]})
                    gmeta.append((si, se))
            else:
                grecs.append({"n": n, "tie": tie, "group": [1] * n,
                              "perms": [{k: p[k] for k in ("inp", "out", "attach_ok", "bounds_ok")}
                                        for p in perms]})
                gmeta.append((si, se))
        # ---- import lists in every arrangement ----
        ljobs, lmeta = [], []
        for bi, base in enumerate(LIST_BASES):
            arr = arrangements(base)
            if tier == "quick" and len(arr) > 24:
                arr = sorted(arr, key=lambda a: core.fnv(f"{seed}:{a}".encode()))[:24]
            for se in ("2015", "2024"):
                for a in arr:
                    ljobs.append({"id": len(ljobs), "src": "use k::{" + a + "};\n",
                                  "opts": {"style_edition": se}, "want": ["out"]})
                    lmeta.append((bi, se))
        lres = ucore.run_jobs(ljobs, sc)
        lby = {}
        for (bi, se), o, j in zip(lmeta, lres, ljobs):
            lby.setdefault((bi, se), []).append((o, j))
        for (bi, se), runs in sorted(lby.items()):
            texts, ok = [], True
            for o, j in runs:
                out = o.get("out", "") if o.get("ok") else ""
                ok = ok and bool(out) and [x for x in idents(out) if x] == [x for x in idents(j["src"]) if x]
                texts.append(out)
            ids = {}
            grecs.append({"n": 1, "tie": [1], "group": [1],
                          "perms": [{"inp": [1], "out": [1], "attach_ok": ok, "bounds_ok": True}],
                          "texts": [ids.setdefault(t, len(ids) + 1) for t in texts]})
            gmeta.append(("list", bi, se, sorted(set(texts))[:4]))
        gfails, gstates = core.eval_report("ReorderObs", "ReorderObs.cfg", grecs, scratch=sc)
        for idx, f in gfails:
            if gmeta[idx][0] == "list":
                _, bi, se, outs = gmeta[idx]
                v.violation(f"list:{','.join(sorted(f['fails']))}:base={bi}:se={se}",
                            f"{f['fails']} for the arrangements of the import list {LIST_BASES[bi]} "
                            f"(style_edition {se}): outputs {outs}",
                            {"base": LIST_BASES[bi], "outputs": outs, "record": grecs[idx]})
                continue
            si, se = gmeta[idx][:2]
            scn = scen[si]
            cls = gmeta[idx][2] if len(gmeta[idx]) > 2 else scn["bound"]
            v.violation(f"reorder:{','.join(sorted(f['fails']))}:{scn['kind']}:n={len(scn['names'])}:"
                        f"bound={cls}:se={se}:{scn['names'][:6]}",
                        f"{f['fails']} for a group of {len(scn['names'])} `{scn['kind']}` declarations "
                        f"(style_edition {se}, boundary {scn['bound']})",
                        {"names": scn["names"], "record": grecs[idx]})
    v.sample({"version_sort_names": model_names[:12]})
    v.sample({"group": scen[1]["names"], "perm_record": grecs[1]["perms"][:2]})
    cov = {"states": res.distinct, "transitions": res.states,
           "traces_validated_against_impl": len(records) + len(grecs) - len(ofails) - len(gfails),
           "evaluations": len(names) ** 2 + n_pairs + len(jobs) + len(ljobs),
           "distinct_nontrivial": len(names) + len(USE_POOL) + len(MOD_POOL) + len(grecs),
           "rule": "identifier universe over {a,b,A,B,_,0,1,2,9} (length <= 2, sampled in quick) plus "
                   "leading-zero / chunk-boundary witnesses: full table of the exported version_sort; "
                   "every ordered pair of a pool of use / mod / extern crate declarations formatted "
                   "under style editions 2015 and 2024; groups of <= 4 declarations in every "
                   "permutation (sampled in quick), with boundaries, and groups of 21..64 imports "
                   "with alias ties in several shuffles",
           "obs_states": ostates + gstates, "exhaustive": False}
    return v.finish("model_checking", cov, [
        "declarations are recognised in the output by their exact text; attributes are expected "
        "on the line above their declaration"])
