"""Conformance of the REPOSITORY'S OWN TEST SUITE: the suite is built with the hooks on and run
with tracing; every session it starts (in-process system / idempotence / self tests, and the
rustfmt processes the integration tests spawn) becomes one run validated against
spec/PipelineTrace.tla.  The functional tests reach pipeline states (emit modes, parse failures,
ignored files, recovered panics) whose assertions look at the text only; the trace spec looks
at the protocol at every step."""
import hashlib
import json
import os
import subprocess
from pathlib import Path

from . import core, ptrace
from .core import ToolError, log


def tree_hash():
    h = hashlib.sha1()
    for cmd in (["git", "-C", str(core.REPO), "rev-parse", "HEAD"],
                ["git", "-C", str(core.REPO), "diff", "HEAD"]):
        h.update(subprocess.run(cmd, capture_output=True).stdout)
    return h.hexdigest()[:16]


def record(scratch):
    """Run the suite with tracing; -> list of events (dicts)."""
    out = Path(scratch) / "suite.ndjson"
    env = dict(os.environ)
    env.update({"RUSTFLAGS": "--cfg rustfmt_verif", "CARGO_PROFILE_DEV_DEBUG": "0",
                "CARGO_NET_OFFLINE": "true", "RUSTFMT_VERIF_TRACE": str(out)})
    cmd = ["cargo", "test", "--workspace", "--no-fail-fast", "--offline", "--target-dir",
           str(core.TARGET / "repo")]
    with core.build_lock():
        r = subprocess.run(cmd, cwd=core.REPO, env=env, capture_output=True, text=True, timeout=3600)
    failed = [ln for ln in r.stdout.splitlines() if ln.startswith("test ") and "FAILED" in ln]
    if "could not compile" in r.stderr:
        raise ToolError("the test suite does not build with the hooks on:\n" + r.stderr[-1500:])
    evs = []
    if out.exists():
        for ln in out.read_text(errors="replace").splitlines():
            try:
                evs.append(json.loads(ln))
            except Exception:
                pass
    return evs, failed


def observations(evs):
    """One observation per run: a rustfmt process (pid with an Invocation / Exit event) is one
    run; in the test harness process every top-level InputStart of a thread starts a run."""
    by = {}
    for e in evs:
        by.setdefault((e.get("pid"), e.get("tid")), []).append(e)
    procs = {e.get("pid") for e in evs if e.get("ev") in ("Invocation", "Exit")}
    obs = []
    for (pid, tid), es in sorted(by.items(), key=lambda kv: str(kv[0])):
        es.sort(key=lambda e: e.get("seq", 0))
        es = [e for e in es if e.get("depth", 0) <= 1]
        if pid in procs:
            obs.append({"events": es, "roots": [], "mode": "suite-proc", "fl": {},
                        "tag": f"proc:{pid}:{tid}"})
            continue
        cur = []
        n = 0
        for e in es:
            if e.get("ev") == "InputStart" and cur:
                obs.append({"events": cur, "roots": [], "mode": "suite", "fl": {},
                            "tag": f"thread:{tid}:{n}"})
                cur = []
                n += 1
            cur.append(e)
        if cur:
            obs.append({"events": cur, "roots": [], "mode": "suite", "fl": {},
                        "tag": f"thread:{tid}:{n}"})
    return obs


def validate(scratch, invs):
    """-> (runs, accepted, [rejections with invariant in invs], drift count, failed tests)"""
    evs, failed = record(scratch)
    obs = observations(evs)
    ok, rej, states = ptrace.validate(obs, scratch)
    mine = [r for r in rej if r["invariant"] in invs]
    drift = sum(1 for r in rej if r["invariant"] is None)
    return {"runs": len(obs), "accepted": ok, "events": len(evs), "states": states,
            "failed_tests": failed}, mine, drift


def check(v, prop, scratch):
    """Validate the suite's traces for one property; violations are reported on `v`.
    -> coverage dict"""
    invs = set(ptrace.INVS.get(prop, set()))
    if prop == "C16":
        invs |= {"TrExit", "TrEnds"}
    info, mine, drift = validate(scratch, invs)
    v.drift += drift
    for rj in mine:
        v.violation(f"suite-trace:{rj['invariant']}:{rj['key']}",
                    f"a run of the repository's own test suite violates {rj['invariant']} of "
                    f"PipelineTrace.tla", rj["run_records"][:60])
    if info["failed_tests"]:
        log(f"  note: {len(info['failed_tests'])} tests of the suite fail on this tree")
    return {"suite_runs": info["runs"], "suite_runs_accepted": info["accepted"],
            "suite_events": info["events"], "suite_failed_tests": len(info["failed_tests"])}
