"""The `ignore` universe (spec/IgnoreSet.tla): pattern lists x where the configuration file that
holds them lives x how the root is named, run through the real binary on a small crate whose
files are all unformatted.  Shared by C13 (IgnoreSound) and C16 (NoDeath)."""
import itertools
import json
import subprocess
from concurrent.futures import ThreadPoolExecutor
from pathlib import Path

from . import core

FILES = {
    ("lib.rs",): "mod m;\nmod sub;\nfn  k0( ){}\n",
    ("m.rs",): "fn  k1( ){}\n",
    ("sub", "mod.rs"): "mod m;\nmod deep;\nfn  k2( ){}\n",
    ("sub", "m.rs"): "fn  k3( ){}\n",
    ("sub", "deep.rs"): "fn  k4( ){}\n",
}
SINGLES = ["m.rs", "/m.rs", "sub/m.rs", "/sub/m.rs", "sub", "sub/", "/sub", "*.rs", "sub/*", "sub/**",
           "**/m.rs", "deep.rs", "mod.rs", "lib.rs", "zz", "m.rs/", "*", "proj", "proj/", "proj/m.rs",
           "/proj/sub/", "proj/**/m.rs", "**/sub/deep.rs", "sub/*.rs", "/*.rs"]
NEGS = ["!m.rs", "!/m.rs", "!sub/m.rs", "!deep.rs", "!sub/", "!*.rs", "!proj/sub/m.rs"]
BASES = ["m.rs", "sub/", "*.rs", "sub/**", "*", "proj/", "sub/*"]
PLACEMENTS = ["proj", "parent", "cpath_in", "cpath_sub", "cpath_out", "home", "xdg", "home_above"]


def pattern_lists():
    out = [[]] + [[p] for p in SINGLES] + [[p] for p in NEGS]
    for b, n in itertools.product(BASES, NEGS):
        out.append([b, n])
        out.append([n, b])
    out += [["sub/", "!sub/m.rs", "m.rs"], ["*.rs", "!m.rs", "/m.rs"], ["zz", "sub/deep.rs"]]
    return out


def parse(pat):
    """the syntax of one entry -> the record IgnoreSet.tla reads"""
    neg = pat.startswith("!")
    if neg:
        pat = pat[1:]
    dironly = pat.endswith("/") and len(pat) > 1
    if dironly:
        pat = pat[:-1]
    anch = pat.startswith("/") or "/" in pat
    segs = [s for s in pat.split("/") if s]
    if segs and segs[0] == "**":
        anch = True      # `**/x` is x at any depth, which is what an unanchored x means already
    return {"neg": neg, "anch": anch, "dir": dironly, "segs": segs}


def layout(base, placement, pats):
    """create the crate and the configuration; -> (proj dir, extra argv, env overrides, config dir)"""
    proj = base / "w" / "proj"
    for rel, text in FILES.items():
        p = proj.joinpath(*rel)
        p.parent.mkdir(parents=True, exist_ok=True)
        p.write_text(text)
    toml = "ignore = [" + ", ".join(json.dumps(p) for p in pats) + "]\n"
    env = {"HOME": str(base / "nohome"), "XDG_CONFIG_HOME": str(base / "noxdg")}
    argv = []
    if placement == "proj":
        cdir = proj
        (cdir / "rustfmt.toml").write_text(toml)
    elif placement == "parent":
        cdir = base / "w"
        (cdir / ".rustfmt.toml").write_text(toml)
    elif placement == "cpath_in":
        cdir = proj
        (cdir / "custom.toml").write_text(toml)
        argv = ["--config-path", str(cdir / "custom.toml")]
    elif placement == "cpath_sub":
        cdir = proj / "sub"
        (cdir / "custom.toml").write_text(toml)
        argv = ["--config-path", str(cdir / "custom.toml")]
    elif placement == "cpath_out":
        cdir = base / "elsewhere"
        cdir.mkdir()
        (cdir / "rustfmt.toml").write_text(toml)
        argv = ["--config-path", str(cdir)]
    elif placement == "home":
        cdir = base / "home"
        cdir.mkdir()
        (cdir / ".rustfmt.toml").write_text(toml)
        env["HOME"] = str(cdir)
    elif placement == "xdg":
        cdir = base / "xdg" / "rustfmt"
        cdir.mkdir(parents=True)
        (cdir / "rustfmt.toml").write_text(toml)
        env["XDG_CONFIG_HOME"] = str(base / "xdg")
    elif placement == "home_above":
        cdir = base / "w"
        (cdir / "rustfmt.toml").write_text(toml)
        env["HOME"] = str(cdir)
    else:
        raise core.ToolError(placement)
    return proj, argv, env, cdir


def one(args):
    base, k, placement, pats, style = args
    rustfmt = core.bin_path("rustfmt")
    d = Path(base) / f"i{k}"
    d.mkdir()
    proj, argv, env, cdir = layout(d, placement, pats)
    root = "lib.rs" if style == "rel" else str(proj / "lib.rs")
    try:
        r = subprocess.run([rustfmt, "--check", "-l"] + argv + [root], cwd=proj,
                           env=core.run_env(env), capture_output=True, text=True, timeout=60)
        code, out, err = r.returncode, r.stdout, r.stderr
    except subprocess.TimeoutExpired:
        code, out, err = 124, "", "timeout"
    listed = {str((proj / ln.strip()).resolve()) for ln in out.split("\n") if ln.strip()}
    died = code not in (0, 1)
    recs = []
    names = sorted({s for rel in FILES for s in rel} | {"proj"})
    for rel in FILES:
        full = proj.joinpath(*rel)
        try:
            relc = list(full.relative_to(cdir).parts)
            under = True
        except ValueError:
            relc, under = [], False
        recs.append({"pats": [parse(p) for p in pats], "path": relc, "under": under,
                     "rs": [n for n in names if n.endswith(".rs")],
                     "ignored": str(full.resolve()) not in listed,
                     "died": died,
                     "_key": f"{placement}:{style}:{json.dumps(pats)}:{'/'.join(rel)}",
                     "_exit": code, "_stderr": err[-800:], "_stdout": out[-400:]})
    for f in proj.rglob("rustc-ice-*.txt"):
        f.unlink()
    return recs


def observe(scratch):
    jobs = []
    for pats in pattern_lists():
        for placement in PLACEMENTS:
            for style in ("rel", "abs"):
                jobs.append((str(scratch), len(jobs), placement, pats, style))
    with ThreadPoolExecutor(max_workers=12) as ex:
        res = list(ex.map(one, jobs))
    return [r for rs in res for r in rs], len(jobs)


def evaluate(recs, scratch):
    slim = [{k: v for k, v in r.items() if not k.startswith("_")} for r in recs]
    return core.eval_report("IgnoreSet", "IgnoreSet.cfg", slim, scratch=scratch)
