"""Shared machinery: build, TLC driver, evidence, verdicts, known findings."""
import fcntl
import hashlib
import json
import os
import re
import shutil
import subprocess
import sys
import tempfile
import time
from pathlib import Path

VERIF = Path(__file__).resolve().parents[2]
REPO = Path(os.environ.get("RFV_REPO", "/repo"))
SPEC = VERIF / "spec"
# (the RFV_* variables relocate the tree under test, the harness and the outputs: used only to
# try seeded changes in a scratch copy while /repo is busy; the registered commands set none)
TARGET = Path(os.environ.get("RFV_TARGET", VERIF / "target"))
HARNESS = Path(os.environ.get("RFV_HARNESS", VERIF / "harness"))
EVIDENCE = Path(os.environ["RFV_OUT"]) / "evidence" if os.environ.get("RFV_OUT") else VERIF / "evidence"
REPLAYS = Path(os.environ["RFV_OUT"]) / "replays" if os.environ.get("RFV_OUT") else VERIF / "replays"
KNOWN = VERIF / "known-findings.jsonl"
SCRATCH_ROOT = Path("/var/tmp")
GUARD = "rustfmt_verif"


class ToolError(Exception):
    """The machinery itself failed (exit 2); never a verdict."""


def log(*a):
    print(*a, file=sys.stderr, flush=True)


# --------------------------------------------------------------------------
# build
# --------------------------------------------------------------------------

_sysroot = None


def sysroot():
    global _sysroot
    if _sysroot is None:
        _sysroot = subprocess.check_output(
            ["rustc", "--print", "sysroot"], cwd=REPO, text=True
        ).strip()
    return _sysroot


def run_env(extra=None):
    """Scrubbed environment for running the binaries under test."""
    env = {
        "PATH": os.environ.get("PATH", "/usr/bin:/bin"),
        "LD_LIBRARY_PATH": sysroot() + "/lib",
        "TERM": "dumb",
        "NO_COLOR": "1",
        "LANG": "C.UTF-8",
        "RUSTUP_HOME": os.environ.get("RUSTUP_HOME", str(Path.home() / ".rustup")),
        "CARGO_HOME": os.environ.get("CARGO_HOME", str(Path.home() / ".cargo")),
        "CARGO_NET_OFFLINE": "true",
    }
    if extra:
        env.update(extra)
    return env


import contextlib


@contextlib.contextmanager
def build_lock():
    TARGET.mkdir(exist_ok=True)
    with open(TARGET / ".build.lock", "w") as lk:
        fcntl.flock(lk, fcntl.LOCK_EX)
        yield


def build(bins=True, harness=True):
    """(Re)build /repo's working tree with the hooks on.  Serialised by a lock so
    that checks started concurrently do not fight over the target directories."""
    TARGET.mkdir(exist_ok=True)
    t0 = time.time()
    with open(TARGET / ".build.lock", "w") as lk:
        fcntl.flock(lk, fcntl.LOCK_EX)
        env = dict(os.environ)
        env["CARGO_NET_OFFLINE"] = "true"
        env.pop("RUSTFLAGS", None)
        if harness:
            lock = HARNESS / "Cargo.lock"
            if not lock.exists():
                shutil.copy(REPO / "Cargo.lock", lock)
            r = subprocess.run(
                ["cargo", "build", "--offline", "--bins"],
                cwd=HARNESS, env=env, capture_output=True, text=True,
            )
            if r.returncode != 0:
                raise ToolError("harness build failed:\n" + r.stderr[-4000:])
        if bins:
            env2 = dict(env)
            env2["RUSTFLAGS"] = f"--cfg {GUARD}"
            env2["CARGO_PROFILE_DEV_DEBUG"] = "0"
            r = subprocess.run(
                ["cargo", "build", "--offline", "--bins",
                 "--target-dir", str(TARGET / "repo")],
                cwd=REPO, env=env2, capture_output=True, text=True,
            )
            if r.returncode != 0:
                raise ToolError("repo build failed:\n" + r.stderr[-4000:])
    log(f"[build] {time.time() - t0:.1f}s")


def build_reference():
    """The frozen copy of the pinned sources (reference/src.tar, the hook commit without any
    later change) built into a second copy of the in-process driver."""
    ref_src = TARGET / "reference" / "src"
    binp = TARGET / "harness-ref" / "debug" / "rfv-run-ref"
    stamp = TARGET / "reference" / ".stamp"
    tar = VERIF / "reference" / "src.tar"
    want = hashlib.sha1(tar.read_bytes()).hexdigest()
    with open(TARGET / ".build.lock", "w") as lk:
        fcntl.flock(lk, fcntl.LOCK_EX)
        if not (stamp.exists() and stamp.read_text() == want):
            shutil.rmtree(TARGET / "reference", ignore_errors=True)
            ref_src.mkdir(parents=True)
            subprocess.run(["tar", "-xf", str(tar), "-C", str(ref_src)], check=True)
            stamp.write_text(want)
        # always ask cargo: the driver source (harness/src/bin/rfv-run.rs) is shared with the
        # working-tree build and may have changed; an up-to-date build costs a fraction of a second
        env = dict(os.environ)
        env["CARGO_NET_OFFLINE"] = "true"
        env.pop("RUSTFLAGS", None)
        r = subprocess.run(["cargo", "build", "--offline", "--bins"], cwd=VERIF / "harness-ref",
                           env=env, capture_output=True, text=True)
        if r.returncode != 0 or not binp.exists():
            raise ToolError("reference build failed:\n" + r.stderr[-4000:])
    return str(binp)


def bin_path(name):
    p = TARGET / "repo" / "debug" / name
    if not p.exists():
        raise ToolError(f"missing binary {p}")
    return str(p)


def harness_bin(name):
    p = TARGET / "harness" / "debug" / name
    if not p.exists():
        raise ToolError(f"missing harness binary {p}")
    return str(p)


# --------------------------------------------------------------------------
# scratch
# --------------------------------------------------------------------------

class Scratch:
    def __init__(self, tag):
        self.path = Path(tempfile.mkdtemp(prefix=f"rfv-{tag}-", dir=SCRATCH_ROOT))

    def __enter__(self):
        return self.path

    def __exit__(self, *a):
        shutil.rmtree(self.path, ignore_errors=True)


# --------------------------------------------------------------------------
# TLC
# --------------------------------------------------------------------------

class TlcResult:
    def __init__(self):
        self.ok = False
        self.states = 0
        self.distinct = 0
        self.depth = 0
        self.printed = []      # values printed with PrintT (raw text lines)
        self.violation = None  # text of the first violation message
        self.raw = ""
        self.coverage = {}     # action -> (distinct, total)
        self.wall = 0.0


_JSON_LINE = re.compile(r'^"?(\{.*\}|\[.*\])"?$')


def tlc(module, cfg, *, workers=4, timeout=600, env=None, simulate=None,
        depth_first=False, coverage=False, extra=None, check_deadlock=False):
    """Run TLC on spec/<module>.tla with spec/<cfg>.  Raises ToolError on parse
    errors/timeouts; a property violation is reported in the result."""
    SPECMETA = TARGET / "tlc"
    SPECMETA.mkdir(parents=True, exist_ok=True)
    meta = tempfile.mkdtemp(prefix=f"{module}-", dir=SPECMETA)
    cmd = ["tlc", "-workers", str(workers), "-metadir", meta, "-cleanup",
           "-noGenerateSpecTE", "-config", str(SPEC / cfg)]
    if not check_deadlock:
        cmd += ["-deadlock"]
    if coverage:
        cmd += ["-coverage", "1"]
    if simulate:
        cmd += ["-simulate", simulate]
    if extra:
        cmd += extra
    cmd += [str(SPEC / (module + ".tla"))]
    e = dict(os.environ)
    jopts = "-Xss512m"
    if depth_first:
        jopts += " -Dtlc2.tool.queue.IStateQueue=StateDeque"
    e["JAVA_TOOL_OPTIONS"] = jopts
    if env:
        e.update(env)
    t0 = time.time()
    try:
        r = subprocess.run(["timeout", str(timeout)] + cmd, cwd=SPEC, env=e,
                           capture_output=True, text=True, stdin=subprocess.DEVNULL)
    finally:
        shutil.rmtree(meta, ignore_errors=True)
    res = TlcResult()
    res.wall = time.time() - t0
    res.raw = r.stdout + r.stderr
    if r.returncode == 124:
        raise ToolError(f"TLC timed out after {timeout}s on {module}/{cfg}")
    for line in r.stdout.splitlines():
        m = re.match(r"^(\d+) states generated, (\d+) distinct states found", line)
        if m:
            res.states, res.distinct = int(m.group(1)), int(m.group(2))
        m = re.match(r"^The depth of the complete state graph search is (\d+)", line)
        if m:
            res.depth = int(m.group(1))
        m = re.match(r"^<(\w+) line .* of module \w+>: (\d+):(\d+)", line)
        if m:
            res.coverage[m.group(1)] = (int(m.group(2)), int(m.group(3)))
        s = line.strip()
        if s.startswith('"') and s.endswith('"'):
            res.printed.append(s[1:-1].replace('\\"', '"').replace("\\\\", "\\"))
        elif s.startswith("<<") or s.startswith("[") or s.startswith("{"):
            res.printed.append(s)
    out = r.stdout
    if "Error: " in out or "error" in r.stderr.lower() and r.returncode not in (0,):
        m = re.search(r"Error: (.*?)(\n\n|\Z)", out, re.S)
        res.violation = m.group(1).strip() if m else out[-2000:]
    if "Model checking completed. No error has been found" in out or \
            ("Finished" in out and res.violation is None and r.returncode == 0):
        res.ok = True
    if not res.ok and res.violation is None:
        res.violation = out[-3000:] + r.stderr[-2000:]
    # parse / semantic errors are tool errors, not verdicts
    if re.search(r"(Parsing or semantic analysis failed|Was expecting|Unknown operator|"
                 r"Fatal errors while parsing|TLC threw an unexpected exception|"
                 r"attempted to|Attempted to)", out):
        if "is violated" not in out and "Postcondition" not in out \
                and "postcondition" not in out:
            raise ToolError(f"TLC failed on {module}/{cfg}:\n{out[-4000:]}")
    return res


def printed_json(res, tag=None):
    """JSON objects printed by the spec through PrintT(ToJson(..))."""
    out = []
    for p in res.printed:
        try:
            v = json.loads(p)
        except Exception:
            continue
        if tag is None or (isinstance(v, dict) and v.get("tag") == tag):
            out.append(v)
    return out


# --------------------------------------------------------------------------
# known findings, verdicts, evidence
# --------------------------------------------------------------------------

def known_findings(prop):
    out = []
    lines = []
    for kf in [KNOWN] + sorted(VERIF.glob("known-findings-*.jsonl")):
        if kf.exists():
            lines += kf.read_text().splitlines()
    if lines:
        for line in lines:
            line = line.strip()
            if not line or line.startswith("#") or line.startswith("fixed:"):
                continue
            try:
                e = json.loads(line)
            except Exception:
                continue
            if e.get("property") == prop:
                out.append(e)
    return out


class Verdict:
    """Collects violations / known findings / drift for one check run."""

    def __init__(self, prop, tier, seed):
        self.prop, self.tier, self.seed = prop, tier, seed
        self.t0 = time.time()
        self.violations = []
        self.known_hit = {}
        self.drift = 0
        self.known = known_findings(prop)
        self.cov = {}
        self.samples = []
        self.assumptions = []

    def violation(self, key, what, replay_obj):
        """key: a stable string identifying the failing case (matched against
        known-findings `match` values)."""
        for k in self.known:
            if k.get("match") == key or (k.get("match_prefix") and
                                         key.startswith(k["match_prefix"])) or \
                    (k.get("match_re") and re.search(k["match_re"], key)):
                self.known_hit.setdefault(k["id"], k)
                return False
        REPLAYS.mkdir(exist_ok=True)
        h = hashlib.sha1(key.encode()).hexdigest()[:12]
        path = REPLAYS / f"{self.prop}-{h}.json"
        path.write_text(json.dumps({"property": self.prop, "key": key, "what": what,
                                    "case": replay_obj}, indent=1, default=str))
        self.violations.append((key, what, str(path)))
        return True

    def sample(self, s):
        if len(self.samples) < 6:
            self.samples.append(s)

    def finish(self, level, coverage, assumptions=None):
        for k in self.known_hit.values():
            print(f"KNOWN-FINDING: property={self.prop} {k['what']}")
        shown = set()
        for key, what, path in self.violations:
            if path in shown:
                continue
            shown.add(path)
            if len(shown) <= 20:
                print(f"VIOLATION property={self.prop} replay={path}")
                log(f"  {what}")
        if self.drift:
            print(f"DRIFT property={self.prop} count={self.drift}")
        cov = dict(coverage)
        cov.setdefault("samples", self.samples or ["(none)"])
        cov["drift"] = self.drift
        cov["known_findings_hit"] = sorted(self.known_hit)
        ev = {
            "property_id": self.prop,
            "tier": self.tier,
            "seed": self.seed,
            "level": level,
            "coverage": cov,
            "assumptions": (assumptions or []) + self.assumptions,
            "wall_s": round(time.time() - self.t0, 2),
            "violations": len(self.violations),
        }
        EVIDENCE.mkdir(exist_ok=True)
        (EVIDENCE / f"{self.prop}.json").write_text(json.dumps(ev, indent=1, default=str))
        return 1 if self.violations else 0


def fnv(b):
    h = 0xcbf29ce484222325
    for x in b:
        h ^= x
        h = (h * 0x100000001b3) & 0xFFFFFFFFFFFFFFFF
    return h


def write_ndjson(path, records):
    with open(path, "w") as f:
        for r in records:
            line = json.dumps(r)
            if "null" in line and re.search(r"(?<![\\\w\"])null(?![\w\"])", line):
                raise ToolError("record with a JSON null (TLC cannot read it): " + line[:400])
            f.write(line + "\n")


# --------------------------------------------------------------------------
# trace validation with bisect-on-reject
# --------------------------------------------------------------------------

def validate_trace(module, cfg, records, *, scratch, max_rejects=40, timeout=600,
                   is_reset=lambda r: r.get("ev") == "reset"):
    """Validate a batch of runs (separated by reset records) against a trace
    spec.  Returns (accepted_runs, rejected, stats) where rejected is a list of
    dicts {run_records, reason, invariant, at_record}.  A rejection condemns
    only the run that contains the offending record; the remainder is
    validated again."""
    runs = []
    for r in records:
        if is_reset(r) or not runs:
            runs.append([])
        runs[-1].append(r)
    rejected = []
    states = 0
    rounds = 0
    while runs:
        rounds += 1
        flat = [r for run in runs for r in run]
        path = Path(scratch) / f"trace-{module}-{rounds}.ndjson"
        write_ndjson(path, flat)
        res = tlc(module, cfg, workers=1, timeout=timeout, depth_first=True,
                  env={"TRACE": str(path)})
        states += res.distinct
        if res.ok:
            break
        out = res.raw
        inv = None
        m = re.search(r"Invariant (\w+) is violated", out)
        at = None
        if m:
            inv = m.group(1)
            ls = re.findall(r"^/\\ l = (\d+)", out, re.M)
            if ls:
                at = int(ls[-1]) - 1          # the record just consumed
        else:
            m2 = re.search(r'"REJECTED_AT", (\d+)', out)
            if m2:
                at = int(m2.group(1))         # first record that cannot be consumed
            elif "is violated" in out or "Postcondition" in out:
                at = None
        if at is None or at < 1 or at > len(flat):
            raise ToolError(f"cannot locate rejection in {module}:\n{out[-3000:]}")
        # which run?
        k = 0
        idx = at
        for k, run in enumerate(runs):
            if idx <= len(run):
                break
            idx -= len(run)
        bad = runs.pop(k)
        rejected.append({"run_records": bad, "invariant": inv, "at_record": idx,
                         "reason": (f"invariant {inv} violated" if inv
                                    else "not a behaviour of the specification"),
                         "record": bad[idx - 1] if 0 < idx <= len(bad) else None})
        if len(rejected) >= max_rejects:
            break
    return len(runs), rejected, {"states": states, "rounds": rounds}


def eval_obs(module, cfg, records, *, scratch, max_fail=25, timeout=900, chunk=4000):
    """Evaluate a trace spec whose states are independent observation records
    (one per line; variable `l` = index).  Returns (n_ok, failures, states)
    where failures = [(record, invariant)]."""
    failures = []
    states = 0
    n_ok = 0
    for base in range(0, len(records), chunk):
        part = list(records[base:base + chunk])
        rounds = 0
        while part:
            rounds += 1
            path = Path(scratch) / f"obs-{module}-{base}-{rounds}.ndjson"
            write_ndjson(path, part)
            res = tlc(module, cfg, workers=1, timeout=timeout, env={"TRACE": str(path)})
            states += res.distinct
            if res.ok:
                n_ok += len(part)
                break
            m = re.search(r"Invariant (\w+) is violated", res.raw)
            ls = re.findall(r"^/?\\?\s*l = (\d+)", res.raw, re.M) or \
                re.findall(r"l = (\d+)", res.raw)
            if not m or not ls:
                raise ToolError(f"{module}: cannot interpret TLC output:\n{res.raw[-3000:]}")
            at = int(ls[-1])
            failures.append((part[at - 1], m.group(1)))
            n_ok += at - 1
            part = part[at:]
            if len(failures) >= max_fail:
                return n_ok, failures, states
    return n_ok, failures, states


def eval_report(module, cfg, records, *, scratch, timeout=1200, chunk=20000, depth_first=False,
                is_start=None):
    """Single-pass evaluation of a trace/observation spec whose ReportInv prints
    {"tag":"FAIL","l":<record index>, ...} for every failing record and never
    stops.  Returns (list of (index0, fail-object), states).  Rejection of the
    trace itself (Accepted false / evaluation error) is a ToolError."""
    out = []
    states = 0
    # chunk boundaries never cut a run (a run starts at a record with is_start(record))
    cuts = [0]
    while cuts[-1] < len(records):
        nxt = min(cuts[-1] + chunk, len(records))
        if is_start:
            while nxt < len(records) and not is_start(records[nxt]):
                nxt += 1
        cuts.append(nxt)
    for base, end in zip(cuts, cuts[1:]):
        part = records[base:end]
        path = Path(scratch) / f"rep-{module}-{base}.ndjson"
        write_ndjson(path, part)
        res = tlc(module, cfg, workers=1, timeout=timeout, env={"TRACE": str(path)},
                  depth_first=depth_first)
        states += res.distinct
        if not res.ok:
            raise ToolError(f"{module}: trace not consumed / evaluation error:\n{res.raw[-3000:]}")
        for f in printed_json(res, "FAIL"):
            out.append((base + int(f["l"]) - 1, f))
    return out, states


def eval_report_all(module, cfg, records, *, scratch, tag="RES", timeout=1800, chunk=20000):
    """Like eval_report, but the spec prints one `tag` object for EVERY record."""
    out = []
    states = 0
    for base in range(0, len(records), chunk):
        part = records[base:base + chunk]
        path = Path(scratch) / f"all-{module}-{base}.ndjson"
        write_ndjson(path, part)
        res = tlc(module, cfg, workers=1, timeout=timeout, env={"TRACE": str(path)})
        states += res.distinct
        if not res.ok:
            raise ToolError(f"{module}: evaluation error:\n{res.raw[-3000:]}")
        got = printed_json(res, tag)
        if len(got) != len(part):
            raise ToolError(f"{module}: {len(got)} results for {len(part)} records")
        for f in got:
            out.append((base + int(f["l"]) - 1, f))
    out.sort(key=lambda t: t[0])
    return out, states
