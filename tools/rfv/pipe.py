"""Pipeline scenarios (spec/Pipeline.tla): generation by TLC, materialisation,
execution of the real `rustfmt` binary, projection to the model's observables,
TLC evaluation of the declarative clauses (spec/PipelineObs.tla).
Shared by C05, C06, C15."""
import hashlib
import json
import os
import random
import re
import shutil
import subprocess
from concurrent.futures import ThreadPoolExecutor
from pathlib import Path

from . import core
from .core import Scratch, ToolError, log, tlc

ROOTN = ["rootA", "rootB", "rootC"]

C05_INVS = {"FailedRootIntact", "OtherRootsFormatted", "ExitOne", "Diagnosed",
            "NoWriteBeforeResolved", "ExtrasIntact", "NoOtherContent"}
C06_INVS = {"ReadOnlyModes", "ExitRelation", "WriteOnlyIfDiffers", "BackupIffChanged",
            "StdoutAgrees", "ReportAgrees"}
C16_INVS = {"ExitIs01"}


def kinds_of(shape):
    n, f, fp, pat = shape["n"], shape["fault"], shape["fpos"], shape["pat"]
    out = []
    for j in range(1, n + 1):
        if f in "EPNMASCDWRZTGHK" and len(f) == 1 and j == fp:
            out.append(f)
        elif pat == "allU":
            out.append("U")
        elif pat == "allF":
            out.append("F")
        else:
            out.append("U" if j % 2 == 1 else "F")
    return out


def body(kind, j, formatted):
    if kind == "F" or formatted:
        return f"fn k{j}() {{}}\n"
    return f"fn  k{j}( ){{}}\n"


def file_text(shape, j, kinds, formatted=False):
    """(bytes on disk, bytes expected after formatting) for file j of the root."""
    k = kinds[j - 1]
    decl = ""
    if j == shape["rp"]:
        if shape.get("ign"):
            decl += "mod a_gen;\n"
        for i in range(1, shape["n"] + 1):
            if i == j:
                continue
            if kinds[i - 1] == "C":
                decl += f'#[cfg_attr(windows, path = "bad{i}.rs")]\nmod f{i};\n'
            elif kinds[i - 1] == "H":
                decl += (f'#[cfg_attr(unix, path = "f{i}.rs")]\n'
                         f'#[cfg_attr(windows, path = "f{i}.rs")]\nmod f{i};\n')
            elif kinds[i - 1] == "D":
                decl += (f'#[cfg_attr(unix, path = "f{i}.rs")]\n'
                         f'#[cfg_attr(windows, path = "bad{i}.rs")]\nmod m{i};\n')
            else:
                decl += f"mod f{i};\n"
    pre = decl
    if k == "M":
        pre += f"mod missing{j};\n"
    if k == "A":
        pre += f"mod amb{j};\n"
    if k == "G":
        pre += f"cfg_if! {{\n    if #[cfg(unix)] {{\n        mod missing{j};\n    }}\n}}\n"
    if k == "S":
        return (f"#![rustfmt::skip]\n{decl}fn  k{j}( ){{}}\n").encode(), None
    if k == "K":
        return (f"#![rustfmt::skip]\n{pre}fn k{j}() {{ let = ; }}\nfn  z( ){{}}\n").encode(), None
    if k in "EH":
        return (pre + f"fn k{j}() {{ let = ; }}\nfn  z( ){{}}\n").encode(), None
    if k == "Z":
        return b"", b"\n"
    if k == "T":
        good = pre + ("\n" if pre else "") + body("F", j, True)
        return (good + "\n\n").encode(), good.encode()
    if k == "R":
        return (pre + f"fn k{j}() {{ let x = 1 === 2; }}\nfn  z( ){{}}\n").encode(), None
    if k == "P":
        return (pre + f"fn k{j}() {{\nfn  z( ){{}}\n").encode(), None
    if k == "N":
        return (pre + f"fn  k{j}( ){{}}\n").encode() + b"// \xff\xfe\n", None
    if k in "CD":
        k = "U"
    if k == "W":
        lf = pre + ("\n" if pre else "") + body("F", j, True)
        return lf.replace("\n", "\r\n").encode(), lf.encode()
    sep = "\n" if pre and k == "F" else ""
    on_disk = pre + sep + body(k, j, False)
    after = pre + ("\n" if pre and k == "F" else "") + body(k, j, True)
    return on_disk.encode(), after.encode()


def materialise(base, sc):
    """Create the scenario tree under base.  Returns (argv paths, layout) where
    layout[r] = {"files": [(path, orig, new)], "extra": [(path, bytes)]}."""
    roots = sc["roots"]
    layout = []
    args = []
    for r, shape in enumerate(roots):
        d = base / ROOTN[r]
        d.mkdir(parents=True)
        kinds = kinds_of(shape)
        files, extra = [], []
        for j in range(1, shape["n"] + 1):
            p = d / f"f{j}.rs"
            orig, new = file_text(shape, j, kinds)
            is_root = j == shape["rp"]
            if is_root and shape["fault"] == "missing":
                files.append((p, None, None))
                continue
            if is_root and shape["fault"] == "dir":
                p.mkdir()
                files.append((p, None, None))
                continue
            p.write_bytes(orig)
            files.append((p, orig, new))
            if kinds[j - 1] in "CD":
                b = d / f"bad{j}.rs"
                b.write_bytes(b"fn bad() { let = ; }\nfn  z( ){}\n")
                extra.append((b, b.read_bytes()))
            if kinds[j - 1] == "A":
                sub = d if is_root else d / f"f{j}"
                sub.mkdir(exist_ok=True)
                a1 = sub / f"amb{j}.rs"
                (sub / f"amb{j}").mkdir()
                a2 = sub / f"amb{j}" / "mod.rs"
                for a in (a1, a2):
                    a.write_bytes(b"fn  amb( ){}\n")
                    extra.append((a, b"fn  amb( ){}\n"))
                if not is_root:
                    # a same-named file one directory up: an ambiguity is an error, never a
                    # reason to look elsewhere
                    a3 = d / f"amb{j}.rs"
                    a3.write_bytes(b"fn  amb_decoy( ){}\n")
                    extra.append((a3, b"fn  amb_decoy( ){}\n"))
        if shape.get("ign"):
            g = d / "a_gen.rs"
            g.write_bytes(b"struct  G { a: u8; b: u8 }\nfn  g( ){ let y = 1 === 2; }\n")
            extra.append((g, g.read_bytes()))
            t = d / "rustfmt.toml"
            t.write_bytes(b'ignore = ["a_gen.rs"]\n')
            extra.append((t, t.read_bytes()))
        # a decoy that no module declares
        dec = d / "decoy.rs"
        dec.write_bytes(b"fn  decoy( ){}\n")
        extra.append((dec, b"fn  decoy( ){}\n"))
        if shape["fault"] == "badtoml":
            t = d / "rustfmt.toml"
            t.write_bytes(b"max_width = = 7\n[[[\n")
            extra.append((t, t.read_bytes()))
        if shape["fault"] == "vermismatch":
            t = d / "rustfmt.toml"
            t.write_bytes(b'required_version = "0.0.1"\n')
            extra.append((t, t.read_bytes()))
        layout.append({"files": files, "extra": extra})
        args.append(str(d / f"f{shape['rp']}.rs"))
    return args, layout


def cli_flags(sc):
    fl = sc["fl"]
    out = []
    if fl["check"]:
        out.append("--check")
    else:
        m = sc["mode"]
        if m in ("stdout", "json", "checkstyle"):
            out += ["--emit", m]
        elif m == "files" and fl.get("ex"):
            out += ["--emit", "files"]
        elif m == "modified":
            out += ["--config", "emit_mode=ModifiedLines"]
    if fl.get("nl") == "unix":
        out += ["--config", "newline_style=Unix"]
    if fl["backup"]:
        out.append("--backup")
    if fl["list"]:
        out.append("-l")
    return out


def apply_json(doc_text, orig_by_name):
    """Rebuild the formatted text of each file from the json report."""
    out = {}
    doc = json.loads(doc_text)
    for f in doc:
        name = f["name"]
        lines = split_lines(orig_by_name[name])
        res, pos = [], 1
        for b in f["mismatches"]:
            ob = b["original_begin_line"]
            nrem = 0 if b["original"] == "" else b["original"].count("\n")
            exp = b["expected"].split("\n")[:-1] if b["expected"] else []
            res += lines[pos - 1:ob - 1] + exp
            pos = ob + nrem
        res += lines[pos - 1:]
        out[name] = join_lines(res)
    return out


def split_lines(text):
    if text == "":
        return []
    return [p[:-1] if p.endswith("\r") else p for p in text.split("\n")]


def join_lines(lines):
    return "\n".join(lines)


def apply_modified(text, orig):
    lines = split_lines(orig)
    rows = text.split("\n")
    if rows and rows[-1] == "":
        rows.pop()
    res, pos, i = [], 1, 0
    while i < len(rows):
        a, rem, add = (int(x) for x in rows[i].split())
        new = rows[i + 1:i + 1 + add]
        i += 1 + add
        res += lines[pos - 1:a - 1] + new
        pos = a + rem
    res += lines[pos - 1:]
    return join_lines(res)


def apply_diff(text, orig_by_name):
    """Rebuild from `--check` output ("Diff in <path>:<line>:" + ' '/'+'/'-' lines)."""
    out = {}
    cur, hunks = None, {}
    for ln in text.split("\n"):
        m = re.match(r"^Diff in (.*?):(\d+):$", ln)
        if m:
            cur = (m.group(1), int(m.group(2)))
            hunks.setdefault(m.group(1), []).append([int(m.group(2)), []])
            continue
        if cur and ln[:1] in (" ", "+", "-"):
            hunks[cur[0]][-1][1].append(ln)
    for name, hs in hunks.items():
        lines = split_lines(orig_by_name[name])
        res, pos = [], 1
        for start, body_ in hs:
            res += lines[pos - 1:start - 1]
            pos = start
            for b in body_:
                if b[0] == " ":
                    res.append(b[1:])
                    pos += 1
                elif b[0] == "-":
                    pos += 1
                else:
                    res.append(b[1:])
        res += lines[pos - 1:]
        out[name] = join_lines(res)
    return out


def run_one(sc, idx, base, rustfmt, trace_dir=None):
    d = base / f"s{idx}"
    args, layout = materialise(d, sc)
    env = core.run_env({"HOME": str(d), "XDG_CONFIG_HOME": str(d / "xdg")})
    tr = None
    if trace_dir is not None:
        tr = trace_dir / f"t{idx}.ndjson"
        env["RUSTFMT_VERIF_TRACE"] = str(tr)
    argv = [rustfmt] + cli_flags(sc) + args
    try:
        r = subprocess.run(argv, cwd=d, env=env, capture_output=True, timeout=60)
        code, out, err = r.returncode, r.stdout.decode("utf-8", "replace"), \
            r.stderr.decode("utf-8", "replace")
    except subprocess.TimeoutExpired:
        code, out, err = 124, "", "timeout"
    obs = observe(sc, layout, code, out, err)
    obs["argv"] = argv[1:]
    obs["trace"] = str(tr) if tr and tr.exists() else None
    shutil.rmtree(d, ignore_errors=True)
    return obs


def observe(sc, layout, code, out, err):
    roots = sc["roots"]
    disk, bk = [], []
    intact = True
    orig_by_name, new_by_name = {}, {}
    for r, lay in enumerate(layout):
        drow, brow = [], []
        for (p, orig, new) in lay["files"]:
            if orig is None:
                drow.append("orig")
                brow.append(False)
                continue
            now = p.read_bytes() if p.is_file() else None
            drow.append("orig" if now == orig else "new" if (new is not None and now == new)
                        else "other")
            b = p.with_suffix(".bk")
            brow.append(b.exists())
            if b.exists() and b.read_bytes() != orig:
                drow[-1] = "other"
            if p.with_suffix(".tmp").exists():
                intact = False
            orig_by_name[str(p)] = orig.decode("utf-8", "replace")
            if new is not None:
                new_by_name[str(p)] = new.decode("utf-8", "replace")
        for (p, content) in lay["extra"]:
            if not p.is_file() or p.read_bytes() != content or p.with_suffix(".bk").exists():
                intact = False
        disk.append(drow)
        bk.append(brow)
    # a diagnostic "for root r": its directory is named, or a path-less error line is present
    pathless = any((ln.startswith("Error") or ln.startswith("Could not") or
                    ln.startswith("error")) and "/" not in ln for ln in err.split("\n"))
    diag = [(ROOTN[r] in err) or pathless for r in range(len(roots))]
    eff = "diff" if sc["fl"]["check"] else sc["mode"]
    # which files does the model say are emitted (healthy root, not skipped)?
    emitted = []
    for r, shape in enumerate(roots):
        kinds = kinds_of(shape)
        failing = shape["fault"] in ("badtoml", "vermismatch", "missing", "dir") or \
            any(k in "EPNMACDRGH" for k in kinds)
        if failing:
            continue
        for j, k in enumerate(kinds, 1):
            if k != "S":
                p = str(layout[r]["files"][j - 1][0])
                emitted.append((p, k, new_by_name.get(p, orig_by_name.get(p))))
    unix = sc["fl"].get("nl") == "unix"

    def rew(k):
        return k in "UDZT" or (k == "W" and unix)
    # (a CRLF file under newline_style=Auto is printed with LF by the stdout emitter while
    # files mode leaves it alone: that is C08's Auto finding, not judged here)
    emitted = [(p, ("U" if rew(k) else "F"), t) for (p, k, t) in emitted]
    outp_ok, report_ok = True, True
    try:
        if eff == "stdout":
            want = "".join(f"{p}:\n\n{t}" for (p, k, t) in emitted)
            outp_ok = out == want
        elif eff == "files" and sc["fl"]["list"] and not sc["fl"]["backup"]:
            outp_ok = out == "".join(p + "\n" for (p, k, t) in emitted if k == "U")
        elif eff == "diff" and sc["fl"]["list"]:
            # the property fixes which files are named, not the wording of the line
            want = [p for (p, k, t) in emitted if k == "U"]
            got = [ln for ln in out.split("\n") if ln]
            outp_ok = len(got) == len(want) and all(g.endswith(w) for g, w in zip(got, want))
        elif eff == "diff":
            rebuilt = apply_diff(out, orig_by_name)
            for (p, k, t) in emitted:
                got = rebuilt.get(p, join_lines(split_lines(orig_by_name[p])))
                if got != join_lines(split_lines(t)):
                    report_ok = False
        elif eff == "json":
            rebuilt = apply_json(out, orig_by_name)
            for (p, k, t) in emitted:
                got = rebuilt.get(p, join_lines(split_lines(orig_by_name[p])))
                if got != join_lines(split_lines(t)):
                    report_ok = False
        elif eff == "checkstyle":
            # one well-formed document; one <file> element per emitted file, in emission order;
            # every <error line=N message="Should be `x`"> names a line of the formatted text:
            # x is its line N; a file has errors iff the formatted text has a line the
            # original lacks at that place
            import xml.etree.ElementTree as ET
            doc = ET.fromstring(out)
            if doc.tag != "checkstyle" or [f.get("name") for f in doc] != [p for (p, k, t) in emitted]:
                report_ok = False
            for fe, (p, k, t) in zip(doc, emitted):
                new_lines = split_lines(t)
                errs = [(int(e.get("line")), e.get("message")) for e in fe]
                for (ln, msg) in errs:
                    if not (msg.startswith("Should be `") and msg.endswith("`")) or \
                            not (1 <= ln <= len(new_lines)) or new_lines[ln - 1] != msg[11:-1]:
                        report_ok = False
                if (k == "F" and not unix) and errs:
                    report_ok = False
                if k == "U" and orig_by_name[p].count("fn  k") and not errs:
                    report_ok = False
        elif eff == "modified" and len(emitted) == 1:
            (p, k, t) = emitted[0]
            if apply_modified(out, orig_by_name[p]) != join_lines(split_lines(t)):
                report_ok = False
    except Exception as e:  # unparsable report
        report_ok = False
        err += f"\n[harness] report not interpretable: {e!r}"
    return {"roots": roots, "mode": sc["mode"], "fl": sc["fl"], "disk": disk, "bk": bk,
            "exit": code, "diag": diag, "outp_ok": outp_ok, "report_ok": report_ok,
            "intact_extra": intact, "stdout": out[:2000], "stderr": err[:2000]}


def scenario_key(sc):
    return json.dumps({"roots": sc["roots"], "mode": sc["mode"], "fl": sc["fl"]}, sort_keys=True)


def generate(tier, cfg="Pipeline_gen.cfg"):
    res = tlc("MC_Pipeline", cfg, workers=4, timeout=1200)
    if not res.ok:
        raise ToolError("Pipeline.tla (gen): " + (res.violation or "")[:2000])
    scs = core.printed_json(res, "REPLAY")
    if not scs:
        raise ToolError("no scenarios generated")
    scs.sort(key=scenario_key)
    return scs, res


def select(scs, tier, seed, n_quick=650):
    """thorough: everything.  quick: a fixed stratified core (every fault kind x every
    mode/flag combination, alone with all other files formatted, alone with the others
    unformatted, and next to a healthy root) plus a VERIF_SEED-selected sample."""
    if tier == "thorough":
        return scs
    rng = random.Random(seed)
    core_s, rest = [], []
    seen = set()
    for s in scs:
        fl = s["fl"]
        combo = (s["mode"], fl["check"], fl["backup"], fl["list"], fl.get("nl"), fl.get("ex"))
        faulty = [r for r in s["roots"] if r["fault"] != "none"]
        f = faulty[0] if faulty else s["roots"][0]
        strata = None
        if len(s["roots"]) == 1 and f["n"] == 2:
            strata = ("alone", f["fault"], f["pat"], combo)
        elif len(s["roots"]) == 2 and f["n"] <= 2 and s["roots"][0] is f and \
                (s["mode"] == "files" or fl["check"]):
            strata = ("pair", f["fault"], "any", combo)
        if strata and f["pat"] != "mixed" and strata not in seen:
            seen.add(strata)
            core_s.append(s)
        else:
            rest.append(s)
    rng.shuffle(rest)
    return core_s + rest[:max(150, n_quick - len(core_s))]


def run_scenarios(scs, trace=False, workers=12):
    rustfmt = core.bin_path("rustfmt")
    with Scratch("pipe") as base:
        tdir = None
        if trace:
            tdir = base / "traces"
            tdir.mkdir()
        with ThreadPoolExecutor(max_workers=workers) as ex:
            obs = list(ex.map(lambda t: run_one(t[1], t[0], base, rustfmt, tdir),
                              enumerate(scs)))
        traces = []
        if trace:
            for o in obs:
                if o["trace"]:
                    o["events"] = [json.loads(x) for x in Path(o["trace"]).read_text().splitlines()
                                   if x.strip()]
                else:
                    o["events"] = []
    return obs


def predicted_equal(sc, ob):
    return (sc["disk"] == ob["disk"] and sc["bk"] == ob["bk"] and sc["exit"] == ob["exit"])


def evaluate(obs, scratch):
    """-> (n_records, [(observation, invariant-name)], states)"""
    slim = [{k: o[k] for k in ("roots", "mode", "fl", "disk", "bk", "exit", "diag", "outp_ok",
                                "report_ok", "intact_extra")} for o in obs]
    fails, states = core.eval_report("PipelineObs", "PipelineObs.cfg", slim, scratch=scratch)
    out = []
    for idx, f in fails:
        for inv in f["fails"]:
            out.append((obs[idx], inv))
    return len(slim), out, states
