"""cargo fmt's option handling (spec/CargoFmtArgs.tla): flag combinations through the real
cargo-fmt with a scripted stand-in for rustfmt; the recorded command lines judged by TLC."""
import itertools
import json
import os
import shutil
import stat
import subprocess
from concurrent.futures import ThreadPoolExecutor
from pathlib import Path

from . import core

EXTRAS = [[], ["--check"], ["-l"], ["--files-with-diff"], ["--emit", "json"], ["--emit=stdout"],
          ["--help"], ["--help=config"], ["--print-config", "default"], ["-V"],
          ["--config", "max_width=90"], ["--check", "--config", "max_width=90"],
          ["--config", "max_width=90", "-l"], ["--check", "--check"],
          # a word that equals the name of the cargo subcommand
          ["--config-path", "fmt"], ["fmt"]]
PREFIXES = ("--emit", "--help=", "--print-config=")


def combos():
    out = []
    for vq, version, check, mf, extra, st in itertools.product(
            ("none", "verbose", "quiet", "both"), (False, True), (False, True),
            ("none", "short", "json", "human", "bogus"), EXTRAS, (0, 1, 9)):
        if vq in ("verbose", "quiet") and (st != 0 or mf in ("human", "bogus")):
            continue        # verbosity does not interact with anything but itself
        if version and (mf != "none" or len(extra) > 1):
            continue
        out.append({"vq": vq, "version": version, "check": check, "mf": mf, "extra": extra,
                    "st": st,
                    "pre": [{"w": w, "p": p} for w in extra for p in PREFIXES if w.startswith(p)]})
    return out


def make_ws(d):
    (d / "ws" / "m1" / "src").mkdir(parents=True)
    (d / "ws" / "m2" / "src").mkdir(parents=True)
    (d / "ws" / "Cargo.toml").write_text('[workspace]\nmembers = ["m1", "m2"]\nresolver = "2"\n')
    for m, ed in (("m1", "2015"), ("m2", "2021")):
        (d / "ws" / m / "Cargo.toml").write_text(
            f'[package]\nname = "{m}"\nversion = "0.1.0"\nedition = "{ed}"\n')
        (d / "ws" / m / "src" / "lib.rs").write_text("fn  k( ){}\n")


def one(t):
    base, k, f, tool, standin = t
    d = (Path(base) / f"a{k}").resolve()
    d.mkdir()
    make_ws(d)
    lg = d / "log.ndjson"
    env = core.run_env({"RUSTFMT": str(standin), "STANDIN_LOG": str(lg), "HOME": str(d),
                        "STANDIN_STATUS": json.dumps({e: f["st"] for e in ("none", "2015", "2021")}),
                        "CARGO_TARGET_DIR": str(d / "target")})
    argv = [tool, "fmt", "--all"]
    argv += {"none": [], "verbose": ["-v"], "quiet": ["-q"], "both": ["-v", "-q"]}[f["vq"]]
    if f["version"]:
        argv.append("--version")
    if f["check"]:
        argv.append("--check")
    if f["mf"] != "none":
        argv += ["--message-format", f["mf"]]
    if f["extra"]:
        argv += ["--"] + f["extra"]
    try:
        r = subprocess.run(argv, cwd=d / "ws", env=env, capture_output=True, timeout=120)
        code, err = r.returncode, r.stderr.decode("utf-8", "replace")
    except subprocess.TimeoutExpired:
        code, err = 124, "timeout"
    calls = []
    for ln in (lg.read_text().splitlines() if lg.exists() else []):
        a = json.loads(ln)
        if "--edition" in a:
            i = a.index("--edition")
            calls.append({"edition": a[i + 1], "nfiles": i, "rest": a[i + 2:]})
        else:
            calls.append({"edition": "none", "nfiles": 0, "rest": a})
    shutil.rmtree(d, ignore_errors=True)
    return {"f": f, "o": {"exit": code, "calls": calls}, "_argv": argv[1:], "_stderr": err[:500]}


def observe(scratch, standin_src):
    tool = core.bin_path("cargo-fmt")
    standin = Path(scratch) / "standin-args.py"
    standin.write_text(standin_src)
    standin.chmod(standin.stat().st_mode | stat.S_IEXEC)
    cs = combos()
    with ThreadPoolExecutor(max_workers=12) as ex:
        return list(ex.map(one, [(str(scratch), k, f, tool, standin) for k, f in enumerate(cs)]))


def evaluate(recs, scratch):
    return core.eval_report("CargoFmtArgs", "CargoFmtArgs.cfg",
                            [{"f": r["f"], "o": r["o"]} for r in recs], scratch=scratch)
