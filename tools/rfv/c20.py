"""C20 — the --backup write protocol never loses the original.

spec/Backup.tla  (protocol model, exhaustive with crash + failing-op actions)
spec/FsSem.tla   (POSIX meaning of the recorded calls; declarative clauses at every step)
spec/BackupTrace.tla (recorded calls must be a behaviour of the protocol model)
"""
import itertools
import json
import os
import random
import shutil
import subprocess
from pathlib import Path

from . import core, fsobs
from .core import Scratch, ToolError, Verdict, log, tlc

NF = 3
UNFMT = "fn  f{i}( x:u32 )->u32{{x+{i}}}\n"
ROOT_DECL = "mod m1;\nmod m2;\n"


# longer than any formatted text of the scenario files: a leftover that is overwritten without
# being truncated shows up as a `partial` file
STALE = "// left over from an earlier run\n" + "".join(f"// stale line {k} of an older, longer text\n" for k in range(40))
# "link": the two out-of-line module files are symbolic links to files in another directory
PRES = {"none": (), "bk": ("bk",), "tmp": ("tmp",), "both": ("tmp", "bk"), "link": ()}


def materialise(d, changed, formatted, pre="none"):
    """files in emission order: m1.rs, m2.rs, m3.rs (root, declares m1, m2)."""
    d.mkdir(parents=True, exist_ok=True)
    for p in d.iterdir():
        p.unlink()
    for i in (1, 2, 3):
        for ext in PRES[pre]:
            (d / f"m{i}.{ext}").write_text(STALE)
    orig = {}
    for i in (1, 2, 3):
        body = UNFMT.format(i=i)
        if i == 3:
            body = ROOT_DECL + body
        if not changed[i - 1]:
            body = formatted[i]
        (d / f"m{i}.rs").write_text(body)
        orig[i] = body
    if pre == "link":
        real = d.parent / (d.name + "-real")
        shutil.rmtree(real, ignore_errors=True)
        real.mkdir()
        for i in (1, 2):
            shutil.move(str(d / f"m{i}.rs"), str(real / f"m{i}.rs"))
            (d / f"m{i}.rs").symlink_to(real / f"m{i}.rs")
    return orig


def classify(d, i, orig, new):
    out = {}
    for nm, ext in (("f", "rs"), ("tmp", "tmp"), ("bk", "bk")):
        p = d / f"m{i}.{ext}"
        if not p.exists():
            out[nm] = "absent"
        else:
            b = p.read_text(errors="replace")
            out[nm] = "orig" if b == orig[i] else "new" if b == new[i] else \
                "stale" if b == STALE else "partial"
            if orig[i] == new[i] and b == orig[i]:
                out[nm] = "orig"
    return out


def run(tier, seed, replay=None):
    v = Verdict("C20", tier, seed)
    rng = random.Random(seed)
    core.build(harness=False)
    rustfmt = core.bin_path("rustfmt")

    # ---- 1. model checking -------------------------------------------------
    mc = {}
    predicted = {}   # (protocol, changed tuple) -> set of (status, disk json)
    states = trans = 0
    for proto in ("backup", "plain"):
        res = tlc("Backup", f"Backup_{proto}.cfg", workers=2, coverage=True, timeout=300)
        if not res.ok:
            v.violation(f"model:{proto}", "Backup.tla: " + (res.violation or "")[:400],
                        {"tlc": res.raw[-3000:]})
        states += res.distinct
        trans += res.states
        mc[proto] = res
        for s in core.printed_json(res, "REPLAY"):
            key = (proto, tuple(s["changed"]), json.dumps(s["disk0"], sort_keys=True))
            predicted.setdefault(key, set()).add(
                (s["status"], json.dumps(s["disk"], sort_keys=True)))
        # vacuity: every protocol action of this protocol must have been taken
        need = (["OpenTmp", "WriteTmp", "RenameBk", "RenameTmp"] if proto == "backup"
                else ["OpenF", "WriteF"]) + ["Decide", "Crash", "Fail"]
        for a in need:
            if a in res.coverage and res.coverage[a][1] == 0:
                raise ToolError(f"Backup.tla action {a} never taken ({proto})")
    n_pred = sum(len(x) for x in predicted.values())

    # ---- 2. crash / fault enumeration on the real binary --------------------
    have_strace = fsobs.strace_ok()
    vectors = list(itertools.product([False, True], repeat=NF))
    scen = [(c, p) for c in vectors for p in PRES]
    if tier == "quick":
        T, F = True, False
        core_s = [((T, T, T), "none"), ((T, T, T), "bk"), ((F, T, F), "tmp"),
                  ((T, F, T), "both"), ((F, F, F), "bk"), ((T, T, T), "link")]
        rest = [x for x in scen if x not in core_s and any(x[0])]
        rng.shuffle(rest)
        scen = core_s + rest[:1]
    runs = 0
    distinct_states = set()
    traces_sem, traces_op = [], {"backup": [], "plain": []}
    run_id = 0
    with Scratch("c20") as sc:
        # reference formatted texts
        ref = sc / "ref"
        materialise(ref, (True, True, True), {})
        r = subprocess.run([rustfmt, str(ref / "m3.rs")], env=core.run_env(),
                           capture_output=True, text=True)
        if r.returncode != 0:
            raise ToolError("reference format failed: " + r.stderr)
        new = {i: (ref / f"m{i}.rs").read_text() for i in (1, 2, 3)}

        # every way of asking for backups (the dedicated flag alone, next to an explicit
        # `--emit files`, as a --config pair) must select the same protocol
        protos = [("backup", ["--backup"], scen), ("plain", [], scen),
                  ("backup", ["--emit", "files", "--backup"], scen[:2]),
                  ("backup", ["--config", "make_backup=true"], scen[:2])]
        for proto, flags, pscen in protos:
            for changed, pre in pscen:
                d = sc / "w"
                orig = materialise(d, changed, new, pre)
                disk0 = [{"f": "orig", "tmp": "stale" if "tmp" in PRES[pre] else "absent",
                          "bk": "stale" if "bk" in PRES[pre] else "absent"} for _ in range(NF)]
                d0key = json.dumps(disk0, sort_keys=True)
                names = {}
                for i in (1, 2, 3):
                    for nm, ext in (("f", "rs"), ("tmp", "tmp"), ("bk", "bk")):
                        names[str(d / f"m{i}.{ext}")] = (i, nm)
                watch = list(names)
                argv = [rustfmt] + flags + [str(d / "m3.rs")]
                new_len = {i: len(new[i].encode()) for i in (1, 2, 3)}

                def observe(status_hint, inj, exit_code):
                    nonlocal runs
                    runs += 1
                    disk = [classify(d, i, orig, new) for i in (1, 2, 3)]
                    key = json.dumps(disk, sort_keys=True)
                    distinct_states.add((proto, changed, pre, key))
                    case = {"protocol": proto, "changed": changed, "pre": pre, "inject": inj,
                            "disk": disk, "exit": exit_code}
                    v.sample(case)
                    # declarative clauses (C20) on the observed disk
                    if proto == "backup":
                        for i, dsk in enumerate(disk, 1):
                            if not (dsk["f"] == "orig" or dsk["bk"] == "orig"):
                                v.violation(
                                    f"crash:{proto}:{changed}:{pre}:{inj}:recoverable",
                                    f"original of m{i}.rs not recoverable after {inj}: {dsk}",
                                    case)
                            if dsk["f"] not in ("absent", "orig", "new"):
                                v.violation(
                                    f"crash:{proto}:{changed}:{pre}:{inj}:partial",
                                    f"m{i}.rs holds a partial text after {inj}: {dsk}", case)
                    if inj is None:
                        for i, dsk in enumerate(disk, 1):
                            want_f = "new" if changed[i - 1] else "orig"
                            ok = dsk["f"] == want_f
                            if proto == "backup" and changed[i - 1]:
                                ok = ok and dsk["bk"] == "orig" and dsk["tmp"] == "absent"
                            if not changed[i - 1]:
                                ok = ok and dsk == disk0[i - 1]
                            if not ok or exit_code != 0:
                                v.violation(f"post:{proto}:{changed}:{pre}",
                                            f"post-state of m{i}.rs wrong after a successful run: "
                                            f"{dsk} exit={exit_code}", case)
                    # drift: is it a state the protocol model predicts?
                    pred = predicted.get((proto, tuple(changed), d0key), set())
                    if not any(k == key for (_, k) in pred):
                        v.drift += 1
                        log(f"[drift] {proto} {changed} {pre} {inj}: {disk}")

                if have_strace:
                    lg = sc / "strace.log"
                    r = fsobs.run_strace(argv, d, watch, lg)
                    calls = fsobs.parse_log(lg)
                    observe("done", None, r.returncode)
                    events, unknown = fsobs.to_events(calls, names, new_len)
                    run_id += 1
                    if pre == "link":
                        # the syscall projection names files by the path that was opened; through a
                        # symbolic link that is not the file that changes: these runs are judged by
                        # the disk states (post-state and crash enumeration) only
                        pass
                    elif unknown:
                        # calls whose effect FsSem does not model: the inferred disk
                        # would be wrong, so this run is judged by the crash
                        # enumeration (actual disk states) only.
                        v.drift += 1
                        log(f"[drift] calls outside FsSem's vocabulary: {unknown[:2]}")
                    else:
                        traces_sem.append({"ev": "reset", "run": run_id, "mode": proto,
                                           "n": NF, "changed": list(changed),
                                           "disk0": disk0})
                        traces_sem += events
                        traces_sem.append({"ev": "end", "run": run_id,
                                           "ok": r.returncode == 0})
                    # operational trace
                    ops = [{"ev": "reset", "run": run_id, "changed": list(changed),
                            "disk0": disk0}]
                    for e in events:
                        o = None
                        if e["ev"] == "trunc":
                            o = {"tmp": "open_tmp", "f": "open_f"}.get(e["name"])
                        elif e["ev"] == "write" and e["complete"]:
                            o = {"tmp": "write_tmp", "f": "write_f"}.get(e["name"])
                        elif e["ev"] == "rename":
                            o = {("f", "bk"): "rename_bk", ("tmp", "f"): "rename_tmp"}.get(
                                (e["from"], e["to"]))
                        elif e["ev"] == "write":
                            continue
                        ops.append({"ev": "op", "i": e["i"], "op": o or "other"})
                    ops.append({"ev": "end", "run": run_id,
                                "status": "done" if r.returncode == 0 else "failed"})
                    if pre != "link":
                        traces_op[proto] += ops
                    counts = fsobs.count_calls(
                        [c for c in calls if c[0] in ("openat", "write", "rename", "unlink",
                                                      "unlinkat", "renameat", "renameat2",
                                                      "copy_file_range", "sendfile",
                                                      "ftruncate", "truncate", "pwrite64",
                                                      "writev", "link", "linkat")])
                    for scn, cnt in sorted(counts.items()):
                        for k in range(1, cnt + 1):
                            for what in ("signal=KILL", "error=EIO"):
                                if tier == "quick" and what == "error=EIO" and \
                                        changed != (True, True, True):
                                    continue
                                materialise(d, changed, new, pre)
                                r2 = fsobs.run_strace(argv, d, watch, lg, inject=(scn, what, k))
                                observe("crashed" if "KILL" in what else "failed",
                                        f"{scn}:{what}:when={k}", r2.returncode)
                else:
                    # fallback: named crash / fault points of the hook layer
                    v.assumptions.append("strace unavailable: hook crash points used")
                    r = subprocess.run(argv, cwd=d, env=core.run_env(), capture_output=True,
                                       text=True)
                    observe("done", None, r.returncode)
                    pts = (["backup.before", "backup.write_tmp", "backup.rename_bk",
                            "backup.rename_tmp"] if proto == "backup" else ["files.write"])
                    for pt in pts:
                        for k in range(1, sum(changed) + 1):
                            for var in ("RUSTFMT_VERIF_CRASH", "RUSTFMT_VERIF_FAULT"):
                                if pt == "backup.before" and var.endswith("FAULT"):
                                    continue
                                materialise(d, changed, new, pre)
                                r2 = subprocess.run(argv, cwd=d, capture_output=True, text=True,
                                                    env=core.run_env({var: f"{pt}@{k}"}))
                                observe("x", f"{var}={pt}@{k}", r2.returncode)

        # ---- 3. trace validation ------------------------------------------
        n_ok = 0
        tstates = 0
        if traces_sem:
            ok, rej, st = core.validate_trace("FsSem", "FsSem.cfg", traces_sem, scratch=sc)
            n_ok += ok
            tstates += st["states"]
            for rj in rej:
                head = rj["run_records"][0]
                v.violation(f"fssem:{head.get('mode')}:{head.get('changed')}:{rj['invariant']}",
                            f"recorded file-system calls: {rj['reason']} at {rj['record']}",
                            rj["run_records"])
            for proto in ("backup", "plain"):
                ok, rej, st = core.validate_trace("BackupTrace", f"BackupTrace_{proto}.cfg",
                                                  traces_op[proto], scratch=sc)
                n_ok += ok
                tstates += st["states"]
                for rj in rej:
                    if rj["invariant"]:
                        head = rj["run_records"][0]
                        v.violation(f"optrace:{proto}:{head.get('changed')}:{rj['invariant']}",
                                    f"{rj['reason']} at {rj['record']}", rj["run_records"])
                    else:
                        v.drift += 1
                        log(f"[drift] op trace not a behaviour of Backup.tla: {rj['record']}")

        # ---- 4. binding self-test (thorough): corrupt a trace, expect rejection
        if tier == "thorough" and traces_op["backup"]:
            bad = [dict(r) for r in traces_op["backup"]]
            idx = [k for k, r in enumerate(bad) if r.get("op") == "rename_bk"]
            if idx:
                bad[idx[0]]["op"] = "rename_tmp"
                ok, rej, _ = core.validate_trace("BackupTrace", "BackupTrace_backup.cfg", bad,
                                                 scratch=sc)
                if not rej:
                    raise ToolError("binding self-test: corrupted trace was accepted")

    cov = {
        "states": states, "transitions": trans,
        "traces_validated_against_impl": n_ok,
        "trace_states": tstates,
        "evaluations": runs,
        "distinct_nontrivial": len(distinct_states),
        "rule": "one execution of the real rustfmt binary per (protocol, changed-vector, "
                "injected kill/EIO at the k-th call of each mutating syscall on the watched "
                "paths); distinct = distinct (protocol, changed, resulting abstract disk)",
        "model_terminal_states": n_pred,
        "exhaustive": tier == "thorough",
        "strace": have_strace,
    }
    return v.finish("model_checking", cov, [
        "strace reports the calls faithfully; contents classified by byte equality with the "
        "original / the uninjected run's output",
        "SIGKILL at syscall entry stands for a crash between two file-system calls",
    ])
