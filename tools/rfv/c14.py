"""C14 — configuration is resolved with the documented precedence.

spec/Config.tla: which file (nearest, dotted name first, home, config dir, --config-path),
per-option precedence (--config pair > dedicated flag > file > default of the effective
style edition), style_edition > version > edition, derived widths, deprecated aliases --
evaluated by TLC on `rustfmt --print-config current` runs over generated directory layouts,
on files formatted in multi-file invocations (probe records), and on a sweep "same value via
file = via --config = via the API" over every option.
"""
import json
import os
import random
import re
import shutil
import subprocess
import tomllib
from concurrent.futures import ThreadPoolExecutor

from . import core, ucore
from .core import Scratch, ToolError, Verdict, log

INT_POOL = {"max_width": [80, 120, 100], "tab_spaces": [2, 8, 4], "fn_call_width": [40, 90, 150, 60],
            "chain_width": [30, 130, 60, 100], "array_width": [20, 60]}
# the granular widths and their defaults: an explicit value that EQUALS the value in effect is
# still explicit (it must survive use_small_heuristics / max_width given next to it)
WIDTH_DEFAULTS = {"fn_call_width": 60, "attr_fn_like_width": 70, "struct_lit_width": 18,
                  "struct_variant_width": 35, "array_width": 60, "chain_width": 60,
                  "single_line_if_else_max_width": 50, "single_line_let_else_max_width": 50}
STR_POOL = {"hard_tabs": ["true"], "style_edition": ["2015", "2024", "2021"],
            "edition": ["2018", "2024"], "version": ["One", "Two"],
            "use_small_heuristics": ["Max", "Off"], "newline_style": ["Unix"],
            "hide_parse_errors": ["true", "false"], "merge_imports": ["true", "false"],
            "fn_args_layout": ["Compressed", "Vertical"], "overflow_delimited_expr": ["true"]}
UNQUOTED = {"hard_tabs", "hide_parse_errors", "merge_imports", "overflow_delimited_expr"}


def rand_cfg(rng, p_present=0.5, nmax=3):
    if rng.random() > p_present:
        return {"present": False, "ints": [], "strs": []}
    ints, strs = [], []
    keys = rng.sample(list(INT_POOL) + list(STR_POOL), rng.randint(0, nmax))
    for k in keys:
        if k in INT_POOL:
            ints.append([k, rng.choice(INT_POOL[k])])
        else:
            strs.append([k, rng.choice(STR_POOL[k])])
    return {"present": True, "ints": ints, "strs": strs}


def toml_of(cfg):
    lines = [f"{k} = {v}" for k, v in cfg["ints"]]
    for k, v in cfg["strs"]:
        lines.append(f"{k} = {v}" if k in UNQUOTED else f'{k} = "{v}"')
    # a configuration file that sets nothing is written as a ZERO-BYTE file: still the nearest
    # configuration, it resets every option to its default
    return "\n".join(lines) + "\n" if lines else ""


def scenario(rng):
    depth = rng.randint(1, 3)
    chain = [{"dotted": rand_cfg(rng, 0.3), "plain": rand_cfg(rng, 0.4)} for _ in range(depth)]
    sc = {"kind": "print", "chain": chain, "home": rand_cfg(rng, 0.25), "confdir": rand_cfg(rng, 0.2),
          "cpath": rand_cfg(rng, 0.15),
          "cli": {"pairs": rand_cfg(rng, 0.5, 3), "edition": rng.choice(["", "", "2018", "2024"]),
                  "style_edition": rng.choice(["", "", "", "2015", "2024"])}}
    sc["cli"]["pairs"]["present"] = True
    # deprecated aliases and the legacy version key cannot be combined arbitrarily on the CLI
    return sc


def materialise(base, sc):
    d = base
    dirs = []
    for k in range(len(sc["chain"]), 0, -1):
        d = d / f"l{k}"
        dirs.append(d)
    d.mkdir(parents=True)
    dirs = dirs[::-1]           # dirs[0] is the file's directory
    for lvl, dd in zip(sc["chain"], dirs):
        if lvl["dotted"]["present"]:
            (dd / ".rustfmt.toml").write_text(toml_of(lvl["dotted"]))
        if lvl["plain"]["present"]:
            (dd / "rustfmt.toml").write_text(toml_of(lvl["plain"]))
    (base / "home").mkdir()
    (base / "xdg" / "rustfmt").mkdir(parents=True)
    if sc["home"]["present"]:
        (base / "home" / "rustfmt.toml").write_text(toml_of(sc["home"]))
    if sc["confdir"]["present"]:
        (base / "xdg" / "rustfmt" / "rustfmt.toml").write_text(toml_of(sc["confdir"]))
    args = []
    if sc["cpath"]["present"]:
        (base / "cp").mkdir()
        (base / "cp" / "custom.toml").write_text(toml_of(sc["cpath"]))
        args += ["--config-path", str(base / "cp" / "custom.toml")]
    pairs = [f"{k}={v}" for k, v in sc["cli"]["pairs"]["ints"]] + \
            [f"{k}={v}" for k, v in sc["cli"]["pairs"]["strs"]]
    if pairs:
        args += ["--config", ",".join(pairs)]
    if sc["cli"]["edition"]:
        args += ["--edition", sc["cli"]["edition"]]
    if sc["cli"]["style_edition"]:
        args += ["--style-edition", sc["cli"]["style_edition"]]
    f = dirs[0] / "file.rs"
    f.write_text("fn main() {}\n")
    return f, args


def split_obs(doc):
    ints = [[k, v] for k, v in doc.items() if isinstance(v, int) and not isinstance(v, bool)]
    strs = [[k, ("true" if v else "false") if isinstance(v, bool) else str(v)]
            for k, v in doc.items() if isinstance(v, (bool, str))]
    return {"ints": ints, "strs": strs}


def print_config(rustfmt, base, f, args):
    env = core.run_env({"HOME": str(base / "home"), "XDG_CONFIG_HOME": str(base / "xdg")})
    r = subprocess.run([rustfmt] + args + ["--print-config", "current", str(f)], cwd=f.parent,
                       env=env, capture_output=True, text=True, timeout=60)
    if r.returncode != 0:
        return None, r.stderr
    try:
        return tomllib.loads(r.stdout), r.stdout
    except Exception as e:
        return None, f"unparsable: {e}"


def run_print(t):
    idx, sc, base0, rustfmt = t
    base = base0 / f"s{idx}"
    base.mkdir()
    f, args = materialise(base, sc)
    doc, raw = print_config(rustfmt, base, f, args)
    res = {"doc": doc, "raw": raw, "args": args}
    if doc is not None:
        # round trip: the printed text, used as a configuration file, prints itself again
        rt = base / "rt"
        rt.mkdir()
        (rt / "home").mkdir()
        (rt / "xdg").mkdir()
        (rt / "rustfmt.toml").write_text(raw)
        (rt / "file.rs").write_text("fn main() {}\n")
        doc2, _ = print_config(rustfmt, rt, rt / "file.rs", [])
        res["roundtrip_ok"] = doc2 == doc
    shutil.rmtree(base, ignore_errors=True)
    return res


def option_sweep(rustfmt, base):
    """(option, non-default value) for every option, from `rustfmt --help=config`."""
    r = subprocess.run([rustfmt, "--help=config"], env=core.run_env(), capture_output=True,
                       text=True, cwd=base)
    out = []
    for m in re.finditer(r"^\s*(\w+) (<[^>]+>|\[[^\]]+\]) Default: (.*)$", r.stdout, re.M):
        name, ty, default = m.group(1), m.group(2), m.group(3).strip()
        if name in ("file_lines", "ignore", "skip_macro_invocations", "required_version",
                    "emit_mode", "make_backup", "print_misformatted_file_names", "verbose",
                    "color", "unstable_features", "disable_all_formatting"):
            continue
        if ty == "<boolean>":
            val = "false" if default == "true" else "true"
        elif ty == "<unsigned integer>":
            val = "17" if default != "17" else "19"
        elif ty.startswith("["):
            vs = [x for x in ty[1:-1].split("|") if x != default]
            if not vs:
                continue
            val = vs[0]
        else:
            continue
        out.append((name, ty, val))
    return out


def run(tier, seed, replay=None):
    v = Verdict("C14", tier, seed)
    rng = random.Random(seed)
    core.build()
    rustfmt = core.bin_path("rustfmt")
    n = 220 if tier == "quick" else 2500
    fixed = random.Random(20261002)      # the universe does not depend on the seed
    uni = [scenario(fixed) for _ in range(2500)]
    if tier == "quick":
        idxs = list(range(len(uni)))
        rng.shuffle(idxs)
        uni = uni[:60] + [uni[i] for i in idxs[:n - 60] if i >= 60]
    records, rmeta = [], []
    with Scratch("c14") as base:
        with ThreadPoolExecutor(max_workers=12) as ex:
            results = list(ex.map(run_print, [(i, s, base, rustfmt) for i, s in enumerate(uni)]))
        rejected = 0
        for sc, r in zip(uni, results):
            if r["doc"] is None:
                rejected += 1        # an invalid combination (e.g. conflicting CLI flags)
                if "Could not output config" in (r["raw"] or ""):
                    # accepted, resolved -- and then not printable: `the text printed by
                    # --print-config .. re-parses to the same effective configuration'
                    why = (r["raw"] or "").strip().split("\n")[-1][:120]
                    off = any(kv == ["use_small_heuristics", "Off"]
                              for src in ([sc["cli"]["pairs"], sc["cpath"], sc["home"], sc["confdir"]]
                                          + [c[k] for c in sc["chain"] for k in ("dotted", "plain")])
                              for kv in src["strs"])
                    v.violation(f"print:CannotPrint:heuristics_off={off}:{why}",
                                f"rustfmt {' '.join(r['args'])} --print-config current accepts the "
                                f"configuration but cannot print it: {why}",
                                {"scenario": sc, "stderr": r["raw"][-600:]})
                continue
            rec = dict(sc)
            rec["obs"] = split_obs(r["doc"])
            rec["roundtrip_ok"] = r["roundtrip_ok"]
            rec["sources_agree"] = True
            records.append(rec)
            rmeta.append(("print", sc, r))
        # ---- same value, same effect: file vs --config vs API, every option ----
        sweep = option_sweep(rustfmt, base)
        api_jobs = [{"id": i, "src": "", "opts": {name: val}, "want": ["config_toml"]}
                    for i, (name, ty, val) in enumerate(sweep)]
        api = ucore.run_jobs(api_jobs, base)

        def sweep_one(t):
            i, (name, ty, val) = t
            d = base / f"w{i}"
            (d / "home").mkdir(parents=True)
            (d / "xdg").mkdir()
            (d / "f").mkdir()
            (d / "c").mkdir()
            lit = val if ty in ("<boolean>", "<unsigned integer>") else f'"{val}"'
            (d / "f" / "rustfmt.toml").write_text(f"{name} = {lit}\n")
            for x in ("f", "c"):
                (d / x / "file.rs").write_text("fn main() {}\n")
            a, _ = print_config(rustfmt, d, d / "f" / "file.rs", [])
            b, _ = print_config(rustfmt, d, d / "c" / "file.rs", ["--config", f"{name}={val}"])
            shutil.rmtree(d, ignore_errors=True)
            return a, b
        with ThreadPoolExecutor(max_workers=12) as ex:
            sw = list(ex.map(sweep_one, enumerate(sweep)))
        for (name, ty, val), (a, b), ap in zip(sweep, sw, api):
            c = None
            try:
                c = tomllib.loads(ap.get("config_toml", "")) if ap.get("config_toml") else None
            except Exception:
                c = None
            agree = a is not None and a == b and (c is None or a == c)
            if a is None:
                continue
            sc = {"kind": "print", "chain": [{"dotted": {"present": False, "ints": [], "strs": []},
                                              "plain": {"present": True, "ints": [], "strs": []}}],
                  "home": {"present": False, "ints": [], "strs": []},
                  "confdir": {"present": False, "ints": [], "strs": []},
                  "cpath": {"present": False, "ints": [], "strs": []},
                  "cli": {"pairs": {"present": True, "ints": [], "strs": []}, "edition": "",
                          "style_edition": ""}}
            if ty == "<unsigned integer>":
                sc["chain"][0]["plain"]["ints"] = [[name, int(val)]]
            else:
                sc["chain"][0]["plain"]["strs"] = [[name, val]]
            rec = dict(sc)
            rec["obs"] = split_obs(a)
            rec["roundtrip_ok"] = True
            rec["sources_agree"] = agree
            records.append(rec)
            rmeta.append(("sweep", (name, val), {"file": a.get(name), "cli": (b or {}).get(name),
                                                 "api": (c or {}).get(name)}))
        # ---- pairs: a granular width at its default next to use_small_heuristics / max_width ----
        pairs = []
        for wname, dflt in WIDTH_DEFAULTS.items():
            for other in (("use_small_heuristics", "Max"), ("use_small_heuristics", "Off"),
                          ("max_width", "150"), ("max_width", "50")):
                pairs.append((wname, dflt, other))
        api2 = ucore.run_jobs([{"id": i, "src": "", "opts": {w: d, o[0]: (int(o[1]) if o[1].isdigit()
                                                                         else o[1])},
                                "want": ["config_toml"]} for i, (w, d, o) in enumerate(pairs)], base)

        def pair_one(t):
            i, (w, dflt, (on, ov)) = t
            d = base / f"q{i}"
            for x in ("home", "xdg", "f", "c"):
                (d / x).mkdir(parents=True)
            lit = ov if ov.isdigit() else f'"{ov}"'
            (d / "f" / "rustfmt.toml").write_text(f"{on} = {lit}\n{w} = {dflt}\n")
            for x in ("f", "c"):
                (d / x / "file.rs").write_text("fn main() {}\n")
            a, _ = print_config(rustfmt, d, d / "f" / "file.rs", [])
            b, _ = print_config(rustfmt, d, d / "c" / "file.rs", ["--config", f"{on}={ov},{w}={dflt}"])
            b2, _ = print_config(rustfmt, d, d / "c" / "file.rs", ["--config", f"{w}={dflt},{on}={ov}"])
            shutil.rmtree(d, ignore_errors=True)
            return a, b, b2
        with ThreadPoolExecutor(max_workers=12) as ex:
            pw = list(ex.map(pair_one, enumerate(pairs)))
        none_ = {"present": False, "ints": [], "strs": []}
        for (w, dflt, (on, ov)), (a, b, b2), ap in zip(pairs, pw, api2):
            if a is None:
                continue
            try:
                c = tomllib.loads(ap.get("config_toml", "")) if ap.get("config_toml") else None
            except Exception:
                c = None
            want = min(dflt, int(ov)) if on == "max_width" else dflt
            agree = a == b and a == b2 and (c is None or a == c) and a.get(w) == want
            plain = {"present": True, "ints": [[w, dflt]], "strs": []}
            if ov.isdigit():
                plain["ints"].append([on, int(ov)])
            else:
                plain["strs"].append([on, ov])
            rec = {"kind": "print", "chain": [{"dotted": none_, "plain": plain}], "home": none_,
                   "confdir": none_, "cpath": none_,
                   "cli": {"pairs": {"present": True, "ints": [], "strs": []}, "edition": "",
                           "style_edition": ""},
                   "obs": split_obs(a), "roundtrip_ok": True, "sources_agree": agree}
            records.append(rec)
            rmeta.append(("sweep", (f"{w}={dflt}", f"{on}={ov}"),
                          {"file": a.get(w), "cli": (b or {}).get(w), "cli_rev": (b2 or {}).get(w),
                           "api": (c or {}).get(w)}))
        # ---- probes: files under nested configs formatted in one invocation, every order ----
        probe_src = "fn p() {\nif true {\nx();\n}\n}\n"
        for order in (["o", "i"], ["i", "o"], ["o", "i", "s"], ["s", "o", "i"], ["i", "s", "o"]):
            d = base / ("p" + "".join(order))
            (d / "home").mkdir(parents=True)
            (d / "xdg").mkdir()
            (d / "ws" / "member").mkdir(parents=True)
            (d / "sib").mkdir()
            (d / "ws" / "rustfmt.toml").write_text("tab_spaces = 2\n")
            (d / "ws" / "member" / "rustfmt.toml").write_text("tab_spaces = 8\n")
            files = {"o": d / "ws" / "o.rs", "i": d / "ws" / "member" / "i.rs", "s": d / "sib" / "s.rs"}
            for p in files.values():
                p.write_text(probe_src)
            env = core.run_env({"HOME": str(d / "home"), "XDG_CONFIG_HOME": str(d / "xdg")})
            subprocess.run([rustfmt] + [str(files[k]) for k in order], cwd=d, env=env,
                           capture_output=True, text=True, timeout=60)
            none = {"present": False, "ints": [], "strs": []}
            two = {"present": True, "ints": [["tab_spaces", 2]], "strs": []}
            eight = {"present": True, "ints": [["tab_spaces", 8]], "strs": []}
            chains = {"o": [{"dotted": none, "plain": two}],
                      "i": [{"dotted": none, "plain": eight}, {"dotted": none, "plain": two}],
                      "s": [{"dotted": none, "plain": none}]}
            for k in order:
                text = files[k].read_text()
                m = re.search(r"^( +)if true", text, re.M)
                tab = len(m.group(1)) if m else 0
                records.append({"kind": "probe", "chain": chains[k], "home": none, "confdir": none,
                                "cpath": none, "cli": {"pairs": {"present": True, "ints": [], "strs": []},
                                                       "edition": "", "style_edition": ""},
                                "obs": {"ints": [["tab_spaces", tab]], "strs": []},
                                "roundtrip_ok": True, "sources_agree": True})
                rmeta.append(("probe", (order, k), text))
            shutil.rmtree(d, ignore_errors=True)
        fails, ostates = core.eval_report("Config", "Config.cfg", records, scratch=base, chunk=1500)
    for idx, f in fails:
        kind, a, b = rmeta[idx]
        if kind == "print":
            sc, r = a, b
            v.violation(f"print:{','.join(sorted(f['fails']))}:{json.dumps(sc, sort_keys=True)[:600]}",
                        f"{f['fails']} for rustfmt {' '.join(r['args'])} --print-config current; "
                        f"model file={f.get('file')} style_edition={f.get('se')}",
                        {"scenario": sc, "printed": r["raw"][:3000], "model": f})
        elif kind == "sweep":
            v.violation(f"sweep:{a[0]}={a[1]}:{','.join(sorted(f['fails']))}",
                        f"{f['fails']} for option {a[0]}={a[1]}: via file {b['file']!r}, via --config "
                        f"{b['cli']!r}{' / ' + repr(b['cli_rev']) if 'cli_rev' in b else ''}, via API "
                        f"{b['api']!r}", {"option": a, "values": b})
        else:
            v.violation(f"probe:{a[0]}:{a[1]}:{','.join(sorted(f['fails']))}",
                        f"file '{a[1]}' formatted in the invocation order {a[0]} was indented with the "
                        f"wrong tab_spaces", {"order": a[0], "file": a[1], "text": b})
    for (kind, a, b), rec in list(zip(rmeta, records))[:2]:
        v.sample({"chain": rec["chain"], "cli": rec["cli"],
                  "obs_probe": [x for x in rec["obs"]["ints"] if x[0] in ("max_width", "tab_spaces")]})
    cov = {"states": ostates, "transitions": ostates,
           "traces_validated_against_impl": len(records) - len(fails),
           "evaluations": len(records),
           "distinct_nontrivial": len({json.dumps([r["chain"], r["cli"], r["cpath"], r["home"]],
                                                  sort_keys=True) for r in records}),
           "rule": "fixed universe of 2500 generated layouts (1..3 directory levels, both file names, "
                   "home / config-dir / --config-path files, --config pairs, --edition / "
                   "--style-edition; quick: first 60 + seed-selected) observed through "
                   "--print-config current (+ round trip); one (file vs --config vs API) comparison per "
                   "option from --help=config; nested-config files formatted in one invocation in "
                   "5 orders",
           "rejected_invocations": rejected, "options_swept": len(sweep), "exhaustive": False}
    return v.finish("exploration", cov, [
        "tomllib parses the printed configuration; the model covers the probe options named in "
        "spec/Config.tla, all other options are covered by the file/--config/API sweep"])
