"""C02 — formatting is idempotent.

spec/LawsObs.tla (Idempotent, OutputAccepted) evaluated by TLC on the observed function
graph of the in-process formatter over U-core (corpus files and token-preserving re-layouts
of them x widths x style editions x option vectors), plus the process-level histories
format;check and format;format on real files (exit status, modification time).
"""
import json
import os
import random
import shutil
import subprocess
import time

from . import core, ucore, universe
from .core import Scratch, ToolError, Verdict, log


def neutral(rec):
    base = {"ok1": False, "ok2": False, "h0": "", "h1": "", "h2": "", "hr": "", "okr": False,
            "he": [], "oke": [], "released": False, "again": ""}
    base.update(rec)
    if not base["again"]:
        base["again"] = base["h1"]
    return base


def good(o):
    return bool(o and o.get("ok") and not o.get("entries") and not o.get("panic")
                and not o.get("timeout") and not o.get("died")
                and not o.get("session", {}).get("parsing")
                and not o.get("session", {}).get("operational"))


def run(tier, seed, replay=None):
    v = Verdict("C02", tier, seed)
    rng = random.Random(seed)
    core.build()
    pts = universe.points(tier, seed)
    for i, (name, text) in enumerate(universe.boundary_sources()):
        for w in ((30, 60, 100, 125) if tier == "quick" else (23, 30, 37, 40, 60, 77, 80, 100, 105, 120, 125, 137, 199)):
            se = universe.STYLE_EDITIONS[(core.fnv(name.encode()) + w) % 3]
            pts.append((f"{name}@w={w},se={se},v0", name, text,
                        {"max_width": w, "style_edition": se}))
    for i, (name, text, o) in enumerate(universe.kindmix_sources()):
        se = universe.STYLE_EDITIONS[i % 3]
        if tier == "thorough" or i % 3 == seed % 3 or len(name) <= len("gen/implmix_XXX"):
            pts.append((f"{name}@w=100,se={se},mix", name, text,
                        dict(o, max_width=100, style_edition=se)))
    pts += universe.option_points(tier, seed)
    # every option value x instances of every template family
    for opt, vals in universe.OPTION_SWEEP:
        for val in vals:
            for (name, text) in universe.family_instances(f"{opt}={val}", universe.boundary_sources(),
                                                           per_family=1 if tier == "quick" else 3):
                se = universe.STYLE_EDITIONS[core.fnv(f"{opt}{name}".encode()) % 3]
                pts.append((f"{name}@w=100,se={se},opt.{opt}={val}", name, text,
                            {"max_width": 100, "style_edition": se, opt: val}))
    jobs1 = []
    for k, (pid, name, text, opts) in enumerate(pts):
        jobs1.append({"id": len(jobs1), "src": text, "opts": opts, "want": ["out"], "_pid": pid})
        if ",opt." in pid:
            # the same point from a source with blanks at line ends and on blank lines
            jobs1.append({"id": len(jobs1), "src": universe.dirty(text, core.fnv(pid.encode())),
                          "opts": opts, "want": ["out"], "_pid": pid + ":dirty"})
        # the same point from a perturbed layout: not a blessed fixed point
        hp = core.fnv(pid.encode())      # a function of the point, not of its rank in this run
        if tier == "thorough" or hp % 2 == 0:
            jobs1.append({"id": len(jobs1), "src": text, "opts": opts, "want": ["out"],
                          "relayout": 1 + (hp % 5), "_pid": pid + ":relayout"})
    with Scratch("c02") as sc:
        r1 = ucore.run_jobs([{k: j[k] for k in j if not k.startswith("_")} for j in jobs1], sc,
                            timeout=30)
        jobs2, idx2 = [], []
        for j, o in zip(jobs1, r1):
            if good(o):
                jobs2.append({"id": len(jobs2), "src": o["out"], "opts": j["opts"], "want": []})
                idx2.append(len(jobs2) - 1)
            else:
                idx2.append(None)
        r2 = ucore.run_jobs(jobs2, sc, timeout=30)
        recs, meta = [], []
        for j, o, i2 in zip(jobs1, r1, idx2):
            if i2 is None:
                continue
            o2 = r2[i2]
            recs.append(neutral({"ok1": True, "ok2": good(o2), "h0": o["src_h"], "h1": o["out_h"],
                                 "h2": o2.get("out_h", "")}))
            meta.append((j, o, o2))
        fails, ostates = core.eval_report("LawsObs", "LawsObs.cfg", recs, scratch=sc, chunk=20000)
        for idx, f in fails:
            j, o, o2 = meta[idx]
            for inv in f["fails"]:
                if inv not in ("Idempotent", "OutputAccepted"):
                    continue
                v.violation(f"{inv}:{j['_pid']}",
                            f"{inv} fails at universe point {j['_pid']}",
                            {"point": j["_pid"], "opts": j["opts"], "relayout": j.get("relayout"),
                             "first_output": o["out"][:6000],
                             "second_run": {k: o2.get(k) for k in ("ok", "err", "entries", "panic",
                                                                   "timeout")}})
        # ---- process level: format;check exits 0, format;format leaves the mtime alone ----
        rustfmt = core.bin_path("rustfmt")
        files = [p for p in universe.corpus(include_src=False) if p[0].startswith("tests/source")]
        rng.shuffle(files)
        nproc = 0
        for name, text in files[: (25 if tier == "quick" else 200)]:
            d = sc / "proc"
            shutil.rmtree(d, ignore_errors=True)
            d.mkdir()
            f = d / "x.rs"
            f.write_text(text)
            env = core.run_env({"HOME": str(d)})
            a = subprocess.run([rustfmt, "--config", "skip_children=true", str(f)], cwd=d, env=env,
                               capture_output=True, text=True, timeout=120)
            if a.returncode != 0 or a.stderr.strip():
                continue
            nproc += 1
            past = time.time() - 100000
            os.utime(f, (past, past))
            m0 = f.stat().st_mtime_ns
            c = subprocess.run([rustfmt, "--config", "skip_children=true", "--check", str(f)],
                               cwd=d, env=env, capture_output=True, text=True, timeout=120)
            b = subprocess.run([rustfmt, "--config", "skip_children=true", str(f)], cwd=d, env=env,
                               capture_output=True, text=True, timeout=120)
            if c.returncode != 0 or f.stat().st_mtime_ns != m0:
                v.violation(f"history:{name}",
                            f"after `rustfmt {name}`, --check exits {c.returncode} and a second run "
                            f"{'rewrote' if f.stat().st_mtime_ns != m0 else 'kept'} the file",
                            {"file": name, "check_stdout": c.stdout[:3000]})
    for (j, o, o2) in meta[:2]:
        v.sample({"point": j["_pid"], "h1": o["out_h"], "h2": o2.get("out_h")})
    cov = {"evaluations": len(jobs1) + len(jobs2) + 3 * nproc,
           "distinct_nontrivial": len({m[0]["_pid"] for m in meta if m[1]["src_h"] != m[1]["out_h"]}),
           "rule": "U-core points (corpus file x max_width x style edition x option vector; "
                   "thorough: stratified full product, quick: seed-selected + canary core), each also "
                   "from a lexer-level token-preserving re-layout; formatted twice in-process; "
                   "distinct_nontrivial = distinct points whose first output differs from the source",
           "points": len(pts), "usable_points": len(recs), "obs_states": ostates,
           "process_histories": nproc, "samples": v.samples}
    return v.finish("exploration", cov, [
        "a point is used only if the first run reports no error (the property's precondition)",
        "TLC evaluates the laws on 64-bit FNV hashes of the texts"])
