"""strace-based file-system observation and crash/fault injection (hook independent)."""
import re
import subprocess
from pathlib import Path

from .core import ToolError, run_env

# every syscall that can change a watched path
WRITE_SYSCALLS = ["openat", "open", "creat", "write", "pwrite64", "writev", "rename",
                  "renameat", "renameat2", "unlink", "unlinkat", "truncate", "ftruncate",
                  "link", "linkat", "symlink", "symlinkat", "copy_file_range", "sendfile",
                  "utimensat", "fchmod", "chmod", "mkdir", "rmdir"]

_LINE = re.compile(r"^(?:\[pid\s+\d+\]\s+|\d+\s+)?(\w+)\((.*)\)\s+=\s+(-?\d+|\?)(.*)$")


def strace_ok():
    try:
        r = subprocess.run(["strace", "-qq", "-e", "trace=none", "true"],
                           capture_output=True, text=True, timeout=20)
        return r.returncode == 0
    except Exception:
        return False


def run_strace(argv, cwd, watch, log_path, inject=None, env=None, stdin=None, timeout=120):
    """Run argv under strace, tracing only calls that touch `watch` paths.
    inject = (syscall, "signal=KILL"|"error=EIO", when)."""
    cmd = ["strace", "-f", "-qq", "-y", "-s", "0", "-o", str(log_path),
           "-e", "trace=" + ",".join(WRITE_SYSCALLS)]
    if inject:
        sc, what, when = inject
        cmd += ["-e", f"inject={sc}:{what}:when={when}"]
    for p in watch:
        cmd += ["-P", str(p)]
    cmd += list(argv)
    try:
        r = subprocess.run(cmd, cwd=cwd, env=env or run_env(), capture_output=True,
                           text=True, input=stdin, timeout=timeout)
    except subprocess.TimeoutExpired:
        raise ToolError("strace run timed out: " + " ".join(map(str, argv)))
    return r


def parse_log(log_path):
    """-> list of (syscall, args_text, ret, tail)."""
    out = []
    for line in Path(log_path).read_text(errors="replace").splitlines():
        if "<unfinished" in line or "resumed>" in line:
            continue
        m = _LINE.match(line.strip())
        if not m:
            continue
        out.append((m.group(1), m.group(2), m.group(3), m.group(4)))
    return out


def paths_in(args):
    return re.findall(r'"((?:[^"\\]|\\.)*)"', args) + re.findall(r"<([^<>]+)>", args)


def to_events(calls, names, new_len):
    """Map syscalls to abstract events.  names: {abs path: (i, name)};
    new_len: {i: byte length of the complete formatted text}.
    Returns (events, unknown) — unknown lists mutating calls that could not be
    interpreted (treated conservatively by the caller)."""
    events, unknown = [], []
    written = {}
    for sc, args, ret, tail in calls:
        failed = ret.startswith("-") or ret == "?"
        ps = [p for p in paths_in(args) if p in names]
        if sc in ("openat", "open", "creat"):
            if not ps:
                continue
            mut = sc == "creat" or "O_TRUNC" in args or "O_CREAT" in args \
                or "O_WRONLY" in args or "O_RDWR" in args or "O_APPEND" in args
            if not mut or failed:
                continue
            i, nm = names[ps[0]]
            if "O_TRUNC" in args or sc == "creat" or "O_CREAT" in args:
                events.append({"ev": "trunc", "i": i, "name": nm})
                written[(i, nm)] = 0
            else:
                events.append({"ev": "write", "i": i, "name": nm, "complete": False})
        elif sc in ("write", "pwrite64", "writev"):
            if not ps or failed:
                continue
            i, nm = names[ps[0]]
            written[(i, nm)] = written.get((i, nm), 0) + int(ret)
            events.append({"ev": "write", "i": i, "name": nm,
                           "complete": written[(i, nm)] == new_len.get(i, -1)})
        elif sc in ("rename", "renameat", "renameat2"):
            if failed:
                continue
            qs = [p for p in re.findall(r'"((?:[^"\\]|\\.)*)"', args)]
            if len(qs) >= 2 and qs[0] in names and qs[1] in names \
                    and names[qs[0]][0] == names[qs[1]][0]:
                events.append({"ev": "rename", "i": names[qs[0]][0],
                               "from": names[qs[0]][1], "to": names[qs[1]][1]})
            else:
                unknown.append((sc, args))
        elif sc in ("unlink", "unlinkat"):
            if failed or not ps:
                continue
            i, nm = names[ps[0]]
            events.append({"ev": "unlink", "i": i, "name": nm})
        elif sc in ("truncate", "ftruncate"):
            if failed or not ps:
                continue
            i, nm = names[ps[0]]
            events.append({"ev": "trunc", "i": i, "name": nm})
        else:
            if not failed and ps:
                unknown.append((sc, args))
    return events, unknown


def count_calls(calls):
    c = {}
    for sc, *_ in calls:
        c[sc] = c.get(sc, 0) + 1
    return c
