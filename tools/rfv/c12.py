"""C12 — diff-based reports reconstruct the formatted text exactly.

spec/MakeDiff.tla     transcription of make_diff + declarative clauses, exhaustive over
                      all edit scripts up to a bound x context 0..3 (operational => declarative)
spec/MakeDiffObs.tla  the declarative clauses evaluated by TLC on the real outputs
"""
import json
import re
import random
import subprocess
import xml.dom.minidom
from pathlib import Path

from . import core
from .core import Scratch, ToolError, Verdict, log, tlc

NASTY = [
    'let s = "<a href=\'x\'>&amp;</a>";',
    "let c = '\"'; // ]]> <!-- -->",
    "let u = \"h\u00e9llo \u4e16\u754c \U0001F98A\";",
    "let t = \"tab\there\";",
    "let q = `backtick`; /* ` */",
    "let ctl = \"\x01\x0b\x7f\";",
    "let z = \"\\u{0}\"; &#x41; &lt;",
    "  trailing   ",
    "",
]


def xml_norm(s):
    """What an XML 1.0 attribute can carry of a line: characters outside the Char
    production cannot be represented at all (U+FFFD stands for them); literal
    tab/CR/LF are normalised to spaces by every conforming parser."""
    out = []
    for c in s:
        o = ord(c)
        if c in "\t\n\r":
            out.append(" ")
        elif o < 0x20 or 0xD800 <= o <= 0xDFFF or o in (0xFFFE, 0xFFFF):
            out.append("\ufffd")
        else:
            out.append(c)
    return "".join(out)


def post_checkstyle(rec):
    """Parse the checkstyle document with a real XML parser (trusted projection)."""
    xml_text = rec.pop("cs_xml", None)
    names = rec.pop("line_names", [])
    if xml_text is None:
        return
    rec["has"]["cs"] = True
    try:
        doc = xml.dom.minidom.parseString(xml_text.encode("utf-8"))
    except Exception:
        rec["cs_wf"] = False
        rec["cs"] = []
        return
    ids = {n: i + 1 for i, n in enumerate(names)}
    out = []
    for e in doc.getElementsByTagName("error"):
        msg = e.getAttribute("message")
        line = int(e.getAttribute("line"))
        pre = "Should be `"
        text = msg[len(pre):-1] if msg.startswith(pre) and msg.endswith("`") else None
        if text is not None and text not in ids:
            # XML attribute-value normalisation turns literal tabs/newlines into spaces
            for n in names:
                if xml_norm(n) == text:
                    text = n
                    break
        out.append([line, ids.get(text, 10 ** 6)])
    rec["cs"] = out


def key_of(rec):
    return f"pair:{json.dumps(rec.get('o'))}->{json.dumps(rec.get('f'))}:ctx={rec.get('ctx')}"


def printed_diffs(v, tier, rng, sc):
    """What `rustfmt --check` prints, judged by spec/PrintedDiffObs.tla."""
    core.build(harness=False)
    rustfmt = core.bin_path("rustfmt")
    filler = "".join(f"fn keep{i}() {{}}\n" for i in range(9))
    srcs = []
    # generated: an early hunk that changes the number of lines, later hunks far below
    for early in ("fn a() {\nlet x = 1; let y = 2;\n}\n", "fn a()\n{\n}\n", "fn  a( ) {}\n\n\n\n",
                  "use b;\nuse a;\n", "fn a() {}\n"):
        for late in ("fn  z( ) {}\n", "fn z() {\nlet q=1;\n}\n", "fn z() {}\n"):
            srcs.append(("gen", early + filler + late + filler + "fn  w( ){}\n"))
    # texts of which one is a line-prefix of the other, and texts that are already formatted
    for body in ("fn a() {}\n", "fn a() {\n    let x = 1;\n}\n", filler):
        for tail in ("", "\n", "\n\n\n", "\n  \n"):
            srcs.append(("gen-tail", body + tail))
        srcs.append(("gen-nofinal", body[:-1]))
        srcs.append(("gen-lead", "\n\n" + body))
    files = sorted((core.REPO / "tests" / "source").glob("*.rs"))
    rng.shuffle(files)
    for p in files[: (40 if tier == "quick" else 300)]:
        try:
            srcs.append((p.name, p.read_text()))
        except UnicodeDecodeError:
            pass
    recs, meta = [], []
    d = sc / "printed"
    d.mkdir()
    env = core.run_env({"HOME": str(d)})
    for k, (name, text) in enumerate(srcs):
        f = d / f"p{k}.rs"
        f.write_text(text)
        a = subprocess.run([rustfmt, "--config", "skip_children=true", "--emit", "stdout", str(f)],
                           cwd=d, env=env, capture_output=True, text=True, timeout=120)
        if a.returncode != 0 or a.stderr.strip() or not a.stdout.startswith(str(f) + ":\n\n"):
            continue
        fmt = a.stdout[len(str(f)) + 3:]
        c = subprocess.run([rustfmt, "--config", "skip_children=true", "--check", str(f)], cwd=d,
                           env=env, capture_output=True, text=True, timeout=120)
        ls = subprocess.run([rustfmt, "--config", "skip_children=true", "--check", "-l", str(f)],
                            cwd=d, env=env, capture_output=True, text=True, timeout=120)
        listed = any(ln.strip().endswith(f.name) for ln in ls.stdout.split("\n"))
        ids = {}
        num = lambda ln: ids.setdefault(ln, len(ids) + 1)
        # the line semantics the reports are defined on: str::lines plus one virtual empty line
        # when the text ends in a line terminator
        o_lines = [x[:-1] if x.endswith("\r") else x for x in text.split("\n")] if text else []
        f_lines = [x[:-1] if x.endswith("\r") else x for x in fmt.split("\n")] if fmt else []
        printed, cur = [], None
        for ln in c.stdout.split("\n"):
            m = re.match(r"Diff in (.*?):(\d+):?$", ln)
            if m and m.group(1) == str(f):
                cur = {"lno": int(m.group(2)), "lines": []}
                printed.append(cur)
            elif cur is not None and ln[:1] in (" ", "-", "+"):
                cur["lines"].append([{" ": "C", "-": "R", "+": "E"}[ln[0]], num(ln[1:])])
        recs.append({"orig": [num(x) for x in o_lines], "fmt": [num(x) for x in f_lines],
                     "printed": printed, "listed": listed})
        meta.append((name, text, c.stdout + "\n--- --check -l ---\n" + ls.stdout))
    fails, states = core.eval_report("PrintedDiffObs", "PrintedDiffObs.cfg", recs, scratch=sc)
    for idx, fl in fails:
        name, text, out = meta[idx]
        v.violation(f"printed:{','.join(sorted(fl['fails']))}:{name}:{core.fnv(text.encode())}",
                    f"{fl['fails']}: the diff printed by --check for {name} is not consistent with the "
                    f"texts at the stated line numbers", {"source": text[:6000], "printed": out[:6000]})
    return len(recs)


def run(tier, seed, replay=None):
    v = Verdict("C12", tier, seed)
    core.build(bins=False)
    unit = core.harness_bin("rfv-unit")
    env = core.run_env()

    cfg = "MakeDiff_quick.cfg" if tier == "quick" else "MakeDiff_thorough.cfg"
    res = tlc("MakeDiff", cfg, workers=8, coverage=False, timeout=1500)
    if not res.ok:
        v.violation("model", "MakeDiff.tla: " + (res.violation or "")[:500], {"tlc": res.raw[-3000:]})
    table = core.printed_json(res, "REPLAY")
    if not table:
        raise ToolError("MakeDiff.tla produced no REPLAY table")

    with Scratch("c12") as sc:
        tpath = sc / "table.ndjson"
        core.write_ndjson(tpath, table)
        max_lines = 3 if tier == "quick" else 4
        per_mille = 40 if tier == "quick" else 8
        r = subprocess.run([unit, "makediff", str(tpath), str(max_lines), str(seed + 1),
                            str(per_mille)], env=env, capture_output=True, text=True)
        if r.returncode != 0:
            raise ToolError("rfv-unit makediff failed: " + r.stderr[-2000:])
        recs = [json.loads(x) for x in r.stdout.split("\n") if x.strip()]
        summary = [x for x in recs if x.get("summary")][0]
        recs = [x for x in recs if not x.get("summary")]

        # extra pairs: nasty characters and real source/formatted pairs
        rng = random.Random(seed)
        pairs = []
        for i, a in enumerate(NASTY):
            for b in NASTY[i + 1:]:
                pairs.append({"o": f"fn f() {{\n{a}\n}}\n", "f": f"fn f() {{\n{b}\n{a}\n}}\n",
                              "name": "nasty"})
        # every kind of character XML 1.0 treats specially, alone on a changed line and next to
        # each of the five characters that need an entity
        odd = ["\x01", "\x08", "\x0b", "\x0c", "\x1f", "\x7f", "\x85", "\u2028", "\ufffe", "\uffff",
               "\ufffd", "\t", "\U0001F98A"]
        for ch in odd:
            for sp in ("", "<", ">", "&", '"', "'", "]]>"):
                ln = f"// c{ch}d {sp}".rstrip()
                pairs.append({"o": "fn f() {\n    let x = 1;\n}\n",
                              "f": f"fn f() {{\n    {ln}\n    let x = 1;\n}}\n",
                              "name": f"odd:{ord(ch):x}:{sp}"})
        pairs.append({"o": "a\r\nb\r\n", "f": "a\nb\n", "name": "crlf"})
        pairs.append({"o": "a\nb", "f": "a\nb\n", "name": "final-nl"})
        src = sorted((core.REPO / "tests" / "source").glob("*.rs"))
        rng.shuffle(src)
        for p in src[: (40 if tier == "quick" else 300)]:
            t = core.REPO / "tests" / "target" / p.name
            if t.exists():
                try:
                    pairs.append({"o": p.read_text(), "f": t.read_text(), "name": p.name})
                except UnicodeDecodeError:
                    pass
        inp = "\n".join(json.dumps(p) for p in pairs) + "\n"
        r2 = subprocess.run([unit, "makediff-pairs"], env=env, input=inp, capture_output=True,
                            text=True)
        if r2.returncode != 0:
            raise ToolError("rfv-unit makediff-pairs failed: " + r2.stderr[-2000:])
        recs2 = [json.loads(x) for x in r2.stdout.split("\n") if x.strip()]
        allrecs = recs + recs2
        for rec in allrecs:
            post_checkstyle(rec)
        n_drift = sum(1 for x in recs if x.get("drift"))
        v.drift += n_drift

        slim = []
        for rec in allrecs:
            s = {k: rec[k] for k in ("orig", "fmt", "ctx", "hunks", "chunks", "reparsed", "json",
                                     "cs", "has", "json_wf", "cs_wf")}
            slim.append(s)
        fails, ostates = core.eval_report("MakeDiffObs", "MakeDiffObs.cfg", slim, scratch=sc)
        n_printed = printed_diffs(v, tier, rng, sc)
        n_ok = len(slim) - len(fails)
        for idx, f in fails:
            rec = allrecs[idx]
            for inv in f["fails"]:
                what = (f"{inv} fails on make_diff/report output for "
                        f"{rec.get('name') or 'enumerated pair'} ctx={rec['ctx']}")
                key = f"{inv}:{rec.get('name')}" if rec.get("name") else f"{inv}:{key_of(rec)}"
                v.violation(key, what, {"o": rec.get("o"), "f": rec.get("f"), "ctx": rec["ctx"],
                                        "hunks": rec["hunks"]})
        for rec in allrecs[:3]:
            v.sample({"o": rec.get("o", "")[:80], "f": rec.get("f", "")[:80], "ctx": rec["ctx"],
                      "hunks": rec["hunks"][:2]})

        # binding self-test: a corrupted record must be rejected
        if tier == "thorough":
            bad = [json.loads(json.dumps(x)) for x in slim if x["hunks"]][:1]
            if bad:
                bad[0]["hunks"][0]["ln"] += 1
                f2, _ = core.eval_report("MakeDiffObs", "MakeDiffObs.cfg", bad, scratch=sc)
                if not f2:
                    raise ToolError("binding self-test: corrupted observation accepted")

    cov = {
           "printed_diffs": n_printed,
        "states": res.distinct, "transitions": res.states,
        "traces_validated_against_impl": summary["matched"] + n_ok,
        "model_table_entries": len(table),
        "evaluations": summary["evaluations"] + len(recs2),
        "distinct_nontrivial": summary["distinct_scripts"],
        "rule": "every pair of texts (line sequences <= %d over {a,b,empty}, with/without final "
                "newline) x context 0..3 run through the real make_diff and compared with the "
                "TLC table for its edit script; distinct_nontrivial = distinct (script, context) "
                "pairs hit; plus nasty-character and real source/target pairs" % max_lines,
        "replay_matched": summary["matched"], "replay_unmatched": summary["unmatched"],
        "outside_model_bound": summary["outside_table"],
        "obs_records_checked_by_tlc": len(slim), "obs_states": ostates,
        "exhaustive": True,
    }
    return v.finish("model_checking", cov, [
        "diff::lines (crate diff 0.1) defines the edit script; serde_json / xml.dom.minidom "
        "decide well-formedness",
    ])
