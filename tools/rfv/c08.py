"""C08 — emitted text obeys the whitespace and newline discipline.

spec/NewlineCore.tla + Newline.tla   converters / auto-detection, every text <= 6 (TLC)
spec/VSpace.tla                      push_vertical_spaces, all small arguments (TLC)
spec/NewlineObs.tla                  clauses on the real apply_newline_style (export hook)
spec/WhitespaceObs.tla               clauses on the text the real formatter emits
                                     (corpus x options x input terminators, classified by
                                     rustc_lexer) and on generated blank-line scenarios
"""
import json
import random
import subprocess

from . import core, ucore
from .core import Scratch, ToolError, Verdict, log, tlc


def corpus():
    files = sorted((core.REPO / "tests" / "target").glob("*.rs")) + \
        sorted((core.REPO / "tests" / "source").glob("*.rs"))
    out = []
    for p in files:
        try:
            t = p.read_text()
        except UnicodeDecodeError:
            continue
        if len(t) < 40000:
            out.append((str(p.relative_to(core.REPO)), t))
    return out


def blank_sources():
    out = []
    for k in range(0, 7):
        gap = "\n" * (k + 1)
        out.append((f"items{k}", f"fn a() {{}}{gap}fn b() {{}}{gap}struct S;\n"))
        out.append((f"stmts{k}", f"fn a() {{\n    let x = 1;{gap}    let y = 2;{gap}    x + y\n}}\n"))
        out.append((f"fields{k}", f"struct S {{\n    a: u32,{gap}    b: u32,\n}}\n"))
        out.append((f"arms{k}", f"fn a(x: u32) {{\n    match x {{\n        1 => 2,{gap}        _ => 3,\n    }}\n}}\n"))
        out.append((f"lead{k}", gap + f"fn a() {{}}\n" + gap))
        out.append((f"variants{k}", f"enum E {{\n    A,{gap}    B,\n}}\n"))
        # a line comment between two items / statements, blank lines before or after it
        out.append((f"itemscomment{k}", f"fn a() {{}}\n// note\n{gap[1:]}fn b() {{}}\n"))
        out.append((f"itemscommentb{k}", f"fn a() {{}}{gap}// note\nfn b() {{}}\n"))
        out.append((f"stmtscomment{k}", f"fn a() {{\n    let x = 1;\n    // note\n{gap[1:]}    let y = 2;\n}}\n"))
        out.append((f"stmtscommentb{k}", f"fn a() {{\n    let x = 1;{gap}    // note\n    let y = 2;\n}}\n"))
        # two groups of line comments between two ELEMENTS OF A LIST, k+1 line feeds apart: inside a
        # field, variant, arm or argument list there is never more than one blank line
        cc = f"    // group one\n{gap[1:]}    // group two\n"
        out.append((f"listcomment_fields{k}", f"struct S {{\n    a: u32,\n{cc}    b: u32,\n}}\n"))
        out.append((f"listcomment_variants{k}", f"enum E {{\n    A,\n{cc}    B,\n}}\n"))
        out.append((f"listcomment_params{k}", f"fn a(\n    x: u32,\n{cc}    y: u32,\n) {{\n}}\n"))
        out.append((f"listcomment_arms{k}", f"fn a(x: u32) {{\n    match x {{\n        1 => 2,\n    {cc.replace(chr(10) + '    //', chr(10) + '        //')}        _ => 3,\n    }}\n}}\n"))
        # leading lines that hold only blanks, before the first token or comment
        out.append((f"leadsp{k}", "\n" * (k % 3) + "  \n" * (1 + k % 2) + "fn a() {}\n"))
        out.append((f"leadtab{k}", "\t\n" + "\n" * (k % 3) + "// c\nfn a() {}\n"))
        # sources without any item: only a comment, only inner attributes
        out.append((f"leadcomment{k}", "\n" * (1 + k % 3) + "// only a comment\n"))
        out.append((f"leadblockc{k}", "\n" * (1 + k % 2) + "/* only a comment */\n"))
        out.append((f"leadinner{k}", "\n" * (1 + k % 3) + "#![allow(unused)]\n// c\n"))
        out.append((f"leadindent{k}", "\n" * (k % 3) + "   fn a() {}\n"))
    return out


def retag(text, how):
    if how == "crlf":
        return text.replace("\r\n", "\n").replace("\n", "\r\n")
    if how == "mixed":
        lines = text.replace("\r\n", "\n").split("\n")
        return "".join(ln + ("\r\n" if i % 2 else "\n") for i, ln in enumerate(lines[:-1])) + lines[-1]
    return text


def want_crlf_of(style, term):
    return style == "Windows" or (style == "Auto" and term == "crlf")


def files_on_disk(v):
    """The terminators of the FILE after `rustfmt f.rs` (and what --check answers) for every
    newline_style x input terminators x already formatted / not: the text the files emitter
    compares against is not the text the formatter saw (rustc normalises CR LF on reading)."""
    core.build(harness=False)
    rustfmt = core.bin_path("rustfmt")
    n = 0
    with Scratch("c08f") as sc:
        for style in ("Auto", "Unix", "Windows"):
            for term in ("lf", "crlf"):
                for formatted in (True, False):
                    for child in (False, True):
                        d = sc / f"{style}-{term}-{formatted}-{child}"
                        d.mkdir()
                        body = "fn f() {\n    let x = 1;\n}\n" if formatted else "fn  f( ) {\nlet x=1;\n}\n"
                        text = body.replace("\n", "\r\n") if term == "crlf" else body
                        target = d / ("m.rs" if child else "lib.rs")
                        target.write_bytes(text.encode())
                        if child:
                            (d / "lib.rs").write_bytes(b"mod m;\r\n" if want_crlf_of(style, term)
                                                       else b"mod m;\n")
                        want_crlf = style == "Windows" or (style == "Auto" and term == "crlf")
                        env = core.run_env({"HOME": str(d)})
                        c = subprocess.run([rustfmt, "--check", "--config", f"newline_style={style}",
                                            str(d / "lib.rs")], cwd=d, env=env, capture_output=True,
                                           timeout=60)
                        r = subprocess.run([rustfmt, "--config", f"newline_style={style}",
                                            str(d / "lib.rs")], cwd=d, env=env, capture_output=True,
                                           timeout=60)
                        n += 2
                        got = target.read_bytes()
                        lf, crlf = got.count(b"\n"), got.count(b"\r\n")
                        follows = (crlf == lf) if want_crlf else (crlf == 0)
                        would_change = (not formatted) or (want_crlf != (term == "crlf"))
                        bad = []
                        if not follows:
                            bad.append(f"file has {crlf} CR LF of {lf} terminators")
                        if (c.returncode == 1) != would_change:
                            bad.append(f"--check exits {c.returncode}, the file "
                                       f"{'needs' if would_change else 'does not need'} rewriting")
                        if bad:
                            tagk = "auto-crlf" if (style == "Auto" and term == "crlf") else "file"
                            v.violation(f"{tagk}:TerminatorsFollowStyle:file:{style}:{term}:"
                                        f"formatted={formatted}:child={child}",
                                        f"newline_style={style}, {term} input, "
                                        f"{'formatted' if formatted else 'unformatted'}"
                                        f"{' child module' if child else ''}: {bad}",
                                        {"style": style, "term": term, "formatted": formatted,
                                         "child": child, "exit": r.returncode})
    return n


def run(tier, seed, replay=None):
    v = Verdict("C08", tier, seed)
    rng = random.Random(seed)
    core.build(bins=False)
    states = trans = 0
    for mod, cfg in (("Newline", "Newline.cfg"), ("VSpace", "VSpace.cfg")):
        res = tlc(mod, cfg, workers=4, timeout=900)
        if not res.ok:
            v.violation(f"model:{mod}", f"{mod}.tla: " + (res.violation or "")[:400],
                        {"tlc": res.raw[-2000:]})
        states += res.distinct
        trans += res.states
    apalache = "not run"
    if tier == "thorough":
        # the same arithmetic for UNBOUNDED naturals (Apalache, SMT): VSpaceU.tla
        import shutil as _sh
        import tempfile
        if _sh.which("apalache-mc") is None:
            raise ToolError("apalache-mc is not on PATH")
        with tempfile.TemporaryDirectory(dir="/var/tmp") as td:
            _sh.copy(core.SPEC / "VSpaceU.tla", td)
            try:
                ar = subprocess.run(["apalache-mc", "check", "--inv=Inv", "--length=0",
                                     f"--out-dir={td}/out", "VSpaceU.tla"], cwd=td,
                                    capture_output=True, text=True, timeout=900)
            except subprocess.TimeoutExpired:
                raise ToolError("apalache-mc timed out on VSpaceU.tla")
            if "The outcome is: NoError" in ar.stdout:
                apalache = "NoError"
            elif "The outcome is: Error" in ar.stdout or "violat" in ar.stdout:
                apalache = "Error"
                v.violation("model:VSpaceU", "VSpaceU.tla (unbounded push_vertical_spaces arithmetic): "
                            "Apalache reports a counterexample", {"apalache": ar.stdout[-3000:]})
            else:
                raise ToolError("apalache-mc did not finish on VSpaceU.tla:\n" + ar.stdout[-1500:]
                                + ar.stderr[-500:])
    unit = core.harness_bin("rfv-unit")
    r = subprocess.run([unit, "newline", "6" if tier == "quick" else "8"], env=core.run_env(),
                       capture_output=True, text=True)
    if r.returncode != 0:
        raise ToolError("rfv-unit newline failed: " + r.stderr[-2000:])
    nrecs = [json.loads(x) for x in r.stdout.splitlines() if x.strip()]
    with Scratch("c08") as sc:
        fails, ostates = core.eval_report("NewlineObs", "NewlineObs.cfg", nrecs, scratch=sc)
        for idx, f in fails:
            bad = [x for x in f["fails"] if x != "AsModel"]
            if bad:
                v.violation(f"newline:{','.join(bad)}:{nrecs[idx]['text']}:{nrecs[idx]['raw']}",
                            f"apply_newline_style: {bad} on {nrecs[idx]}", nrecs[idx])
            else:
                v.drift += 1
        # ---- the emitted text ----
        files = corpus()
        rng.shuffle(files)
        files = files[: (250 if tier == "quick" else 900)]
        optsets = [
            {}, {"hard_tabs": True}, {"newline_style": "Windows"}, {"newline_style": "Unix"},
            {"blank_lines_upper_bound": 0}, {"blank_lines_upper_bound": 3, "blank_lines_lower_bound": 1},
            {"tab_spaces": 2}, {"hard_tabs": True, "tab_spaces": 8, "max_width": 60},
        ]
        jobs = []
        for i, (name, text) in enumerate(files):
            for k, opts in enumerate(optsets if tier == "thorough" else
                                     [optsets[(i + j) % len(optsets)] for j in range(3)]):
                how = ["lf", "crlf", "mixed"][(i + k) % 3] if "newline_style" in opts or k == 0 \
                    else "lf"
                jobs.append({"id": len(jobs), "src": retag(text, how), "opts": opts,
                             "want": ["lines"], "_meta": {"name": name, "how": how, "gen": False}})
        for (name, text) in blank_sources():
            for up in (0, 1, 2, 3):
                for lo in (0, 1, 2, 3):
                    if lo > up:
                        continue
                    for ht in (False, True):
                        jobs.append({"id": len(jobs), "src": text,
                                     "opts": {"blank_lines_upper_bound": up,
                                              "blank_lines_lower_bound": lo, "hard_tabs": ht},
                                     "want": ["lines"],
                                     "_meta": {"name": name, "how": "lf", "gen": True}})
        # leading / trailing / interior blank lines under every explicit newline style
        for (name, text) in blank_sources():
            for style in ("Windows", "Unix"):
                for up in (1, 3):
                    for how in ("lf", "crlf"):
                        jobs.append({"id": len(jobs), "src": retag(text, how),
                                     "opts": {"newline_style": style, "blank_lines_upper_bound": up},
                                     "want": ["lines"],
                                     "_meta": {"name": name, "how": how, "gen": True}})
        # `converting the style changes nothing but the terminators': the same source under Unix and
        # under Windows, whole formatter (nested snippet formatting of macro bodies and doc code
        # included); the two outputs are equal once CR LF is read as LF
        from . import universe as _u
        pair_src = [(n, t) for (n, t) in blank_sources()[::3]]
        pair_src += [(n, t) for (n, t) in _u.boundary_sources()
                     if n.rsplit("_", 1)[0] in ("gen/macdef", "gen/deepmac", "gen/macstmt", "gen/mdcomment",
                                                "gen/mlstrarg", "gen/skipattr")
                     and core.fnv(n.encode()) % (3 if tier == "quick" else 1) == 0]
        pair_jobs = []
        for (name, text) in pair_src:
            for style in ("Unix", "Windows"):
                pair_jobs.append({"id": len(pair_jobs), "src": text, "want": ["out"],
                                  "opts": {"newline_style": style, "format_code_in_doc_comments": True}})
        pres = ucore.run_jobs(pair_jobs, sc)
        n_pairs = 0
        for k, (name, text) in enumerate(pair_src):
            a, b = pres[2 * k], pres[2 * k + 1]
            if not (a.get("ok") and b.get("ok")) or a.get("out") is None or b.get("out") is None:
                continue
            n_pairs += 1
            if b["out"].replace("\r\n", "\n") != a["out"] or "\r" in a["out"]:
                v.violation(f"stylepair:{name}",
                            f"the Windows-style output of {name} differs from the Unix-style output in "
                            f"more than its terminators", {"unix": a["out"][:3000], "windows": b["out"][:3000]})
        results = ucore.run_jobs([{k: j[k] for k in j if k != "_meta"} for j in jobs], sc)
        wrecs, wmeta = [], []
        skipped = 0
        for j, o in zip(jobs, results):
            if not o.get("ok") or o.get("entries") or "lines" not in o or \
                    o.get("session", {}).get("parsing"):
                skipped += 1
                continue
            opts = j["opts"]
            style = str(opts.get("newline_style", "Auto")).lower()
            if style == "auto":
                # the style of the first terminator of the input file
                src = j["src"]
                p = src.find("\n")
                style = "windows" if p > 0 and src[p - 1] == "\r" else "unix"
            ws = o["ws"]
            wrecs.append({"style": style, "hard_tabs": bool(opts.get("hard_tabs", False)),
                          "upper": int(opts.get("blank_lines_upper_bound", 1)),
                          "strict": bool(j["_meta"]["gen"]) and "comment" in j["_meta"]["name"],
                          "listdepth": (2 if "arms" in j["_meta"]["name"] else 1)
                          if j["_meta"]["name"].startswith("listcomment_") else -1,
                          "nonempty": ws["nonempty"], "lead_blank": ws["lead_blank"],
                          "final_nl": ws["final_nl"], "crlf": ws["crlf"], "lf": ws["lf"],
                          "lines": o["lines"]})
            wmeta.append(j)
        fails, wstates = core.eval_report("WhitespaceObs", "WhitespaceObs.cfg", wrecs, scratch=sc,
                                          chunk=400)
    for idx, f in fails:
        j = wmeta[idx]
        m = j["_meta"]
        for inv in f["fails"]:
            auto = "newline_style" not in j["opts"]
            tagk = "auto-crlf" if (inv == "TerminatorsFollowStyle" and auto and m["how"] != "lf") \
                else ("gen" if m["gen"] else "corpus")
            v.violation(f"{tagk}:{inv}:{m['name']}:{m['how']}:{json.dumps(j['opts'], sort_keys=True)}",
                        f"{inv} fails on the text emitted for {m['name']} ({m['how']} input) "
                        f"with {j['opts']}", {"source": j["src"][:4000], "opts": j["opts"],
                                              "meta": m})
    n_files = files_on_disk(v)
    v.sample({"newline": nrecs[100] if len(nrecs) > 100 else nrecs[-1]})
    if wmeta:
        v.sample({"file": wmeta[0]["_meta"], "opts": wmeta[0]["opts"],
                  "first_lines": wrecs[0]["lines"][:3]})
    cov = {"states": states, "transitions": trans,
           "traces_validated_against_impl": len(nrecs) + len(wrecs) - len(fails),
           "evaluations": len(nrecs) + len(jobs) + n_files, "file_level_runs": n_files,
           "distinct_nontrivial": len({(j["_meta"]["name"], j["_meta"]["how"],
                                        json.dumps(j["opts"], sort_keys=True)) for j in wmeta}),
           "rule": "(a) every text over {c,CR,LF} up to length 6 through the real "
                   "apply_newline_style; (b) corpus files (tests/source, tests/target; seed-selected "
                   "in quick) x option sets x LF/CRLF/mixed input terminators and generated "
                   "sources with 0..6 blank lines between items / statements / fields / arms / "
                   "variants x bounds, formatted in-process; distinct = distinct (file, terminators, "
                   "options) whose run reported no error",
           "newline_records": len(nrecs), "whitespace_records": len(wrecs),
           "skipped_runs_with_errors": skipped, "obs_states": ostates + wstates, "apalache_vspace_unbounded": apalache, "style_pairs": n_pairs,
           "exhaustive": False}
    return v.finish("model_checking", cov, [
        "rustc_lexer classifies the emitted text; lines inside macro calls/definitions and after "
        "a rustfmt skip attribute are exempt from the indentation clause by a token-level scan",
        "inside lists the blank-line bound is checked as max(upper, 1) (list vs block is not "
        "distinguished)"])
