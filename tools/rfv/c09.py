"""C09 — released style editions are frozen.

spec/LawsObs.tla (ReferenceAgreement, EditionFreeze) evaluated by TLC on the function graph
of two builds: W (the working tree) and R (reference/src.tar -- the pinned sources, frozen
-- built into a second copy of the same driver).  For every U-core point with a released
style edition: W's text must be byte-identical to R's, and W under 2015 / 2018 / 2021 must be
identical to each other.
"""
import json
import random

from . import core, ucore, universe
from .c02 import good, neutral
from .core import Scratch, ToolError, Verdict, log

RELEASED = ("2015", "2018", "2021", "2024")


def run(tier, seed, replay=None):
    v = Verdict("C09", tier, seed)
    core.build(bins=False)
    refbin = core.build_reference()
    pts = universe.points(tier, seed, files_quick=2000)
    if tier == "thorough":
        pts = pts[::2]
    # Families on which the pinned release itself breaks another property and the tree was
    # repaired (DESIGN 12.4): the release output cannot be the yardstick there.
    #   parenattr: the release drops the attributes of an inner parenthesised expression (C01,
    #   fix 8246e5f)
    #   attrmisc: attributes of unnamed parameters / closure block bodies dropped, `1. ..=2.` glued
    #   to `1...=2.` (C01, fixes 251b4c4, a3e1b0e, 0ca874c)
    repaired = ("gen/parenattr_", "gen/attrmisc_", "gen/floatrange_")
    extra = [x for x in universe.boundary_sources() if not x[0].startswith(repaired)] + \
        universe.name_sources()
    for i, (name, text) in enumerate(extra):
        for w in (30, 60, 100, 125) if tier == "quick" else (23, 30, 37, 40, 60, 77, 80, 100, 105, 120, 125, 137, 199):
            se = RELEASED[(core.fnv(name.encode()) + w) % 4]
            pts.append((f"{name}@w={w},se={se},v0", name, text, {"max_width": w, "style_edition": se}))
    pts += universe.option_points(tier, seed)
    # every option value x one instance of every template family x an old and the newest
    # released style edition
    for opt, vals in universe.OPTION_SWEEP:
        for val in vals:
            for (name, text) in universe.family_instances(f"{opt}={val}",
                                                           per_family=0 if tier == "thorough" else 3):
                if name.startswith(repaired):
                    continue
                h = core.fnv(f"{opt}={val}:{name}".encode())
                for se in (("2015", "2021")[h % 2], "2024"):
                    if tier == "quick" and (h + seed) % 4 and se != "2024":
                        continue
                    pts.append((f"{name}@w=100,se={se},opt.{opt}={val}", name, text,
                                {"max_width": 100, "style_edition": se, opt: val}))
    jobs = []
    for (pid, name, text, opts) in pts:
        if opts["style_edition"] not in RELEASED:
            continue
        jobs.append({"id": len(jobs), "src": text, "opts": opts, "want": [], "_pid": pid})
    # which style edition is in force is itself frozen: the configuration resolved the way a
    # front end does it (public load_config) from a configuration file and the three options
    # that choose the defaults (style_edition > version > edition), every combination
    res_src = [("gen/resolve_0", "use crate::item::{item, x10, x2, Item};\nfn  f( ) {}\n")] + \
        [x for x in universe.boundary_sources()
         if x[0] in ("gen/arm_0", "gen/uselong_0", "gen/deriveattr_0")]
    opt3 = lambda vs: [None] + list(vs)
    for (name, text) in res_src:
        for fv in opt3(("One", "Two")):
            for fe in opt3(("2018", "2024")):
                for fs in opt3(("2015", "2024")):
                    toml = "".join(f'{k} = "{x}"\n' for k, x in
                                   (("version", fv), ("edition", fe), ("style_edition", fs)) if x)
                    for cv in opt3(("One", "Two")):
                        for ce in opt3(("2015", "2024")):
                            for cs in opt3(("2021", "2024")):
                                cli = {k: x for k, x in (("version", cv), ("edition", ce),
                                                         ("style_edition", cs)) if x}
                                pid = (f"{name}@resolve:file={fv},{fe},{fs}:cli={cv},{ce},{cs}")
                                jobs.append({"id": len(jobs), "src": text, "opts": {}, "toml": toml,
                                             "cli": cli, "want": [], "_pid": pid})
    # the three frozen-together editions on the same source
    ed_jobs = []
    for k, (pid, name, text, opts) in enumerate(pts):
        if tier == "quick" and k % 3:
            continue
        for se in ("2015", "2018", "2021"):
            o = dict(opts)
            o["style_edition"] = se
            ed_jobs.append({"id": len(ed_jobs), "src": text, "opts": o, "want": [],
                            "_pid": pid, "_se": se})
    strip = lambda js: [{k: j[k] for k in j if not k.startswith("_")} for j in js]
    with Scratch("c09") as sc:
        rw = ucore.run_jobs(strip(jobs), sc, timeout=30)
        rr = ucore.run_jobs(strip(jobs), sc, timeout=30, binary=refbin)
        re_ = ucore.run_jobs(strip(ed_jobs), sc, timeout=30)
        recs, meta = [], []
        for j, a, b in zip(jobs, rw, rr):
            recs.append(neutral({"ok1": good(a), "h1": a.get("out_h", ""), "okr": good(b),
                                 "hr": b.get("out_h", ""), "released": True}))
            meta.append(("ref", j, a, b))
        by = {}
        for j, o in zip(ed_jobs, re_):
            by.setdefault(j["_pid"], []).append((j, o))
        for pid, lst in by.items():
            recs.append(neutral({"he": [o.get("out_h", "") for _, o in lst],
                                 "oke": [good(o) for _, o in lst]}))
            meta.append(("ed", lst[0][0], lst, None))
        fails, ostates = core.eval_report("LawsObs", "LawsObs.cfg", recs, scratch=sc, chunk=20000)
    for idx, f in fails:
        kind, j, a, b = meta[idx]
        for inv in f["fails"]:
            if kind == "ref" and inv == "ReferenceAgreement":
                v.violation(f"ReferenceAgreement:{j['_pid']}",
                            f"working tree and frozen reference disagree at {j['_pid']} "
                            f"(W ok={good(a)} {a.get('out_h')}, R {b.get('out_h')})",
                            {"point": j["_pid"], "opts": j["opts"], "source": j["src"][:6000]})
            if kind == "ed" and inv == "EditionFreeze":
                v.violation(f"EditionFreeze:{j['_pid']}",
                            f"style editions 2015/2018/2021 differ at {j['_pid']}: "
                            f"{[o.get('out_h') for _, o in a]}",
                            {"point": j["_pid"], "opts": j["opts"], "source": j["src"][:6000]})
    for m in meta[:2]:
        v.sample({"point": m[1]["_pid"], "W": m[2].get("out_h") if m[0] == "ref" else None,
                  "R": m[3].get("out_h") if m[0] == "ref" else None})
    nontriv = len({m[1]["_pid"] for m in meta if m[0] == "ref" and good(m[2])
                   and m[2].get("src_h") != m[2].get("out_h")})
    cov = {"evaluations": len(jobs) * 2 + len(ed_jobs), "distinct_nontrivial": nontriv,
           "rule": "U-core points with a released style edition plus width-boundary sweep sources, "
                   "formatted by the working tree and by the frozen reference build; every third "
                   "(quick) / every point also under 2015, 2018 and 2021; distinct_nontrivial = "
                   "distinct points whose output differs from the source",
           "points": len(jobs), "edition_triples": len(by), "obs_states": ostates,
           "samples": v.samples}
    return v.finish("exploration", cov, [
        "the reference is reference/src.tar (the pinned sources with the inert hook layer), built "
        "with the same toolchain; a point is compared whenever the reference formats it without error"])
