"""C05 — a failing run never damages source files (spec/Pipeline.tla)."""
import json

from . import core, pipe
from .core import Scratch, ToolError, Verdict, log


def run_shared(prop, invs, tier, seed, level_note, with_d=False):
    v = Verdict(prop, tier, seed)
    core.build(harness=False)
    scs, gen = pipe.generate(tier)
    sel = pipe.select(scs, tier, seed)
    if with_d:
        # the swallowed-parse-error kind (known finding) is explored for C05 only
        scs_d, gen_d = pipe.generate(tier, "Pipeline_genD.cfg")
        scs_d = [s for s in scs_d if any(r["fault"] in ("D", "H", "K") for r in s["roots"])]
        sel = sel + pipe.select(scs_d, tier, seed, n_quick=90)
    obs = pipe.run_scenarios(sel, trace=True)
    mismatched = 0
    distinct = set()
    for sc, ob in zip(sel, obs):
        distinct.add(json.dumps([[r["fault"], r["n"], r["rp"], r["fpos"], r["pat"]]
                                 for r in sc["roots"]]) + sc["mode"] + json.dumps(sc["fl"]))
        if not pipe.predicted_equal(sc, ob):
            mismatched += 1
    v.drift += mismatched
    with Scratch(prop.lower()) as sd:
        n_ok, fails, ostates = pipe.evaluate(obs, sd)
        # trace validation of the same runs
        from . import ptrace
        t_ok, t_rej, tstates = ptrace.validate(obs, sd)
        suite_cov = {}
        if tier == "thorough":
            from . import suite
            suite_cov = suite.check(v, prop, sd)
        if prop == "C06":
            suite_cov["cli_conflicts"] = check_conflicts(v, sd)
            # roots that share a module and disagree about its formatting (CheckRelObs.tla)
            from . import checkrel
            (sd / "checkrel").mkdir()
            suite_cov["shared_module_runs"] = checkrel.run(v, sd / "checkrel")
            # the command-line front end as a whole (Cli.tla): which flag combinations may write
            from . import cliuni
            (sd / "cli").mkdir()
            crecs = cliuni.observe(sd / "cli", tier)
            cfails, cstates = cliuni.evaluate(crecs, sd)
            for idx, f in cfails:
                r = crecs[idx]
                bad = sorted(set(f["fails"]) - {"ExitIs01"})
                if bad:
                    v.violation(f"cli:{','.join(bad)}:{' '.join(r['_argv'])}",
                                f"{bad} for `rustfmt {' '.join(r['_argv'])}`: observed {r['o']}",
                                {"argv": r["_argv"], "observed": r["o"], "model": f["oper"],
                                 "stdout": r["_stdout"], "stderr": r["_stderr"]})
                elif f["model"]:
                    v.violation(f"cli-model:{','.join(sorted(f['model']))}:{' '.join(r['_argv'])}",
                                f"Cli.tla: the transcription itself breaks {f['model']}", f)
                elif not f["asmodel"]:
                    v.drift += 1
            if tier == "thorough":
                # the transcription alone over the whole product of the flag dimensions
                mrecs, mfails, mstates = cliuni.evaluate_model(sd)
                for idx, f in mfails:
                    v.violation(f"cli-model:{','.join(sorted(f['model']))}:{json.dumps(mrecs[idx]['f'], sort_keys=True)}",
                                f"Cli.tla: the transcription itself breaks {f['model']} for "
                                f"{mrecs[idx]['f']}", f)
                suite_cov["cli_model_combinations"] = len(mrecs)
                cstates += mstates
            suite_cov["cli_combinations"] = len(crecs)
            suite_cov["cli_states"] = cstates
    for ob, inv in fails:
        if inv not in invs:
            continue
        key = f"{inv}:" + json.dumps({"roots": ob["roots"], "mode": ob["mode"], "fl": ob["fl"]},
                                     sort_keys=True)
        what = (f"{inv} fails for rustfmt {' '.join(ob['argv'][:4])} ... : disk={ob['disk']} "
                f"bk={ob['bk']} exit={ob['exit']}")
        v.violation(ptrace_key(inv, ob), what, ob)
    for rj in t_rej:
        if rj["invariant"] and rj["invariant"] in ptrace.INVS.get(prop, ()):
            v.violation(f"trace:{rj['invariant']}:{rj['key']}",
                        f"recorded pipeline trace violates {rj['invariant']} at {rj['record']}",
                        rj["run_records"])
        elif not rj["invariant"]:
            v.drift += 1
            log(f"[drift] trace events out of the modelled order: {rj['key']}")
    for ob in obs[:4]:
        v.sample({"argv": ob["argv"], "roots": ob["roots"], "disk": ob["disk"],
                  "exit": ob["exit"]})
    cov = {
        "states": gen.distinct, "transitions": gen.states,
        "traces_validated_against_impl": t_ok,
        "evaluations": len(obs), "distinct_nontrivial": len(distinct),
        "rule": "TLC enumerates (root shapes x fault kind x fault position x emit mode/flags) "
                "scenarios; each selected scenario is materialised and run through the real "
                "binary; distinct = distinct scenario descriptors",
        "scenarios_generated": len(scs), "replay_equal_to_model": len(obs) - mismatched,
        "obs_checked_by_tlc": n_ok + len(fails), "obs_states": ostates,
        "trace_states": tstates, "exhaustive": tier == "thorough",
    }
    cov.update(suite_cov)
    return v.finish("model_checking", cov, [level_note])


def ptrace_key(inv, ob):
    faults = [r["fault"] for r in ob["roots"]]
    # is a "D" child the last out-of-line module parsed in its root?
    dlast = any(r["fault"] == "D" and r["fpos"] == max(i for i in range(1, r["n"] + 1)
                                                       if i != r["rp"])
                for r in ob["roots"])
    return f"faults={faults}:dlast={dlast}:{inv}:mode={ob['mode']}:" \
           f"fl={json.dumps(ob['fl'], sort_keys=True)}:" \
           f"shapes={json.dumps([[r['n'], r['rp'], r['fpos'], r['pat']] for r in ob['roots']])}"


def run(tier, seed, replay=None):
    return run_shared("C05", pipe.C05_INVS, tier, seed,
                      "file contents classified by byte equality with hand-written expected "
                      "texts; diagnostics detected by the root's directory name on stderr",
                      with_d=True)


def check_conflicts(v, sd):
    """C06: whatever else is on the command line, `--check` never modifies a file and exits 1 on
    a file that plain rustfmt would rewrite -- including emit modes smuggled in as `--config`
    pairs or through a configuration file."""
    import subprocess
    rustfmt = core.bin_path("rustfmt")
    ugly = b"fn  main( ) { }\n"
    n = 0
    for how in ("pair", "file"):
        for m in ("Files", "Stdout", "Json", "Checkstyle", "ModifiedLines", "Diff", "Coverage"):
            for extra in ([], ["--backup"], ["-l"]):
                d = sd / f"cf-{how}-{m}-{len(extra) and extra[0].strip('-')}"
                d.mkdir()
                f = d / "x.rs"
                f.write_bytes(ugly)
                args = ["--check"] + extra
                if how == "pair":
                    args += ["--config", f"emit_mode={m}"]
                else:
                    (d / "rustfmt.toml").write_text(f'emit_mode = "{m}"\n')
                r = subprocess.run([rustfmt] + args + [str(f)], cwd=d, env=core.run_env({"HOME": str(d)}),
                                   capture_output=True, text=True, timeout=60)
                n += 1
                others = sorted(p.name for p in d.iterdir() if p.name not in ("x.rs", "rustfmt.toml"))
                bad = []
                if f.read_bytes() != ugly:
                    bad.append("the file was modified")
                if others:
                    bad.append(f"files appeared: {others}")
                if r.returncode != 1:
                    bad.append(f"exit {r.returncode} on an unformatted file")
                if bad:
                    v.violation(f"check-conflict:{how}:{m}:{' '.join(extra)}",
                                f"rustfmt {' '.join(args)} x.rs ({how}): {bad}; stderr {r.stderr[-200:]!r}",
                                {"args": args, "how": how, "stdout": r.stdout[:1000],
                                 "stderr": r.stderr[-1000:]})
    return n
