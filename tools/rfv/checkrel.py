"""C06: `--check` versus plain `rustfmt` on one command line whose roots SHARE an out-of-line
module and disagree about its formatting (spec/CheckRelObs.tla)."""
import itertools
import os
import shutil
import subprocess

from . import core

SHARED = "fn s() {\n    let a = 1;\n}\n"          # formatted with 4 blanks, not with 2
TREE = {
    "sh/shared.rs": SHARED,
    "sh/y/main.rs": '#[path = "../shared.rs"]\nmod shared;\nfn y() {}\n',
    "sh/x/main.rs": '#[path = "../shared.rs"]\nmod shared;\nfn x() {}\n',
    "sh/x/rustfmt.toml": "tab_spaces = 2\n",
    "sh/z/main.rs": '#[path = "../shared.rs"]\nmod shared;\nfn  z( ){}\n',
    # a root whose crate-level skip list names the macro the shared file calls
    "sk/shared.rs": "fn s() {\n    mm!( 1,2 );\n}\n",
    "sk/a.rs": "#![rustfmt::skip::macros(mm)]\nmod shared;\nfn a() {}\n",
    "sk/b.rs": "mod shared;\nfn b() {}\n",
}
ROOTS = {"y": "sh/y/main.rs", "x": "sh/x/main.rs", "z": "sh/z/main.rs", "a": "sk/a.rs",
         "b": "sk/b.rs"}
PAST = 1_000_000_000


def make(d):
    for rel, text in TREE.items():
        p = d / rel
        p.parent.mkdir(parents=True, exist_ok=True)
        p.write_text(text)
        os.utime(p, (PAST, PAST))


def snapshot(d):
    return {str(p.relative_to(d)): (p.read_bytes(), p.stat().st_mtime_ns)
            for p in sorted(d.rglob("*")) if p.is_file()}


def orders():
    out = []
    for group in ("yxz", "ab"):
        for n in (1, 2, 3):
            for o in itertools.product(group, repeat=n):
                if all(o[i] != o[i + 1] for i in range(len(o) - 1)):
                    out.append(list(o))
    return out


def run(v, sd):
    rustfmt = core.bin_path("rustfmt")
    records, meta = [], []
    for k, o in enumerate(orders()):
        for flags in ([], ["-l"]):
            dc, dp = sd / f"cr{k}{len(flags)}c", sd / f"cr{k}{len(flags)}p"
            res = {}
            for d, args in ((dc, ["--check"] + flags), (dp, [])):
                d.mkdir()
                make(d)
                before = snapshot(d)
                r = subprocess.run([rustfmt] + args + [str(d / ROOTS[i]) for i in o], cwd=d,
                                   env=core.run_env({"HOME": str(d)}), capture_output=True,
                                   text=True, timeout=60)
                res[d] = (r, before != snapshot(d))
                shutil.rmtree(d, ignore_errors=True)
            (rc, cmod), (rp, pmod) = res[dc], res[dp]
            records.append({"order": o, "flags": flags, "check_exit": rc.returncode,
                            "check_modified": cmod, "rewritten": pmod,
                            "errors": rp.returncode != 0 or bool(rp.stderr.strip())})
            meta.append((rc, rp))
    fails, _ = core.eval_report("CheckRelObs", "CheckRelObs.cfg", records, scratch=sd)
    for idx, f in fails:
        rec = records[idx]
        rc, rp = meta[idx]
        v.violation(f"shared-module:{','.join(sorted(f['fails']))}:{'-'.join(rec['order'])}:"
                    f"{' '.join(rec['flags'])}",
                    f"{f['fails']} for rustfmt --check {' '.join(rec['flags'])} "
                    f"{' '.join(ROOTS[i] for i in rec['order'])}: --check exits {rec['check_exit']}"
                    f"{' and modified the tree' if rec['check_modified'] else ''}, plain rustfmt "
                    f"{'rewrites' if rec['rewritten'] else 'rewrites nothing'}",
                    {"record": rec, "check_stdout": rc.stdout[:1500], "check_stderr": rc.stderr[-800:],
                     "plain_stderr": rp.stderr[-800:]})
    return len(records) * 2
