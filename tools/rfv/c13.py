"""C13 — exactly the reachable, non-excluded files are formatted, each once.

spec/ModTree.tla: Reach (declarative rule) vs Walk (ModResolver transcription), both
evaluated by TLC on every scenario of a fixed generator universe; the scenarios are
materialised with every file deliberately unformatted and run through the real binary;
TLC then judges the observed set of changed files (ExactlyReachable / AsWalk).
"""
import itertools
import json
import random
import shutil
import subprocess
from concurrent.futures import ThreadPoolExecutor
from pathlib import Path

from . import core, ignoreuni, ptrace
from .core import Scratch, ToolError, Verdict, log

KINDS = ["rs", "modrs", "inline", "path"]
NAMES = ["a", "b"]


def trees(depth, budget):
    """all lists of sibling nodes (kind, name, children) within depth / node budget."""
    if depth == 0 or budget == 0:
        return [[]]
    out = [[]]
    for k in KINDS:
        for sub in trees(depth - 1, budget - 1):
            used = 1 + count(sub)
            if used > budget:
                continue
            out.append([(k, NAMES[0], sub)])
            # a second sibling (leaf or with one leaf child)
            for k2 in KINDS:
                for sub2 in ([[]] if budget - used < 2 else [[], [("rs", "a", [])],
                                                           [("modrs", "b", [])]]):
                    if used + 1 + count(sub2) <= budget:
                        out.append([(k, NAMES[0], sub), (k2, NAMES[1], sub2)])
    return out


def count(nodes):
    return sum(1 + count(c) for (_, _, c) in nodes)


class Builder:
    def __init__(self, root_nonmodrs, fallback, path_sub):
        self.files = {}      # path tuple -> {"items": [...], "skip": False}
        self.dirs = set()
        self.root_nonmodrs = root_nonmodrs
        self.fallback = fallback
        self.path_sub = path_sub
        self.placed = []     # (path, name, ancestor stems)

    def add_file(self, p):
        self.files[p] = {"items": [], "skip": False}
        for i in range(1, len(p)):
            self.dirs.add(p[:i])
        return self.files[p]["items"]

    def place(self, nodes, items, D, decl_dir, file_modrs, in_inline, anc):
        for (k, name, sub) in nodes:
            if k == "inline":
                it = {"k": "inline", "name": name, "rel": [], "items": [], "skip": False}
                items.append(it)
                self.place(sub, it["items"], D + (name,), decl_dir, file_modrs, True, anc)
                continue
            if k == "rs":
                base = D
                if self.fallback and not file_modrs and not in_inline:
                    base = decl_dir
                p = base + (name,)
                it = {"k": "decl", "name": name, "rel": [], "items": [], "skip": False}
                nd, ndecl, nmodrs = p[:-1] + (name,), p[:-1], False
            elif k == "modrs":
                p = D + (name, "mod")
                it = {"k": "decl", "name": name, "rel": [], "items": [], "skip": False}
                nd, ndecl, nmodrs = D + (name,), D + (name,), True
            else:
                rel = (("sub", "p_" + name) if self.path_sub else ("p_" + name,))
                base = D if in_inline else decl_dir
                p = base + rel
                it = {"k": "path", "name": name, "rel": list(rel), "items": [], "skip": False}
                nd, ndecl, nmodrs = p[:-1], p[:-1], True
            items.append(it)
            if p in self.files:
                continue
            sub_items = self.add_file(p)
            self.placed.append((p, name, anc))
            self.place(sub, sub_items, nd, ndecl, nmodrs, False, anc + (p[-1],))


def scenario(nodes, root_nonmodrs, fallback, path_sub, decoys, tweak):
    b = Builder(root_nonmodrs, fallback, path_sub)
    root = ("src", "lib")
    items = b.add_file(root)
    if root_nonmodrs:
        b.dirs.add(("src", "lib"))
    D = ("src", "lib") if root_nonmodrs else ("src",)
    b.place(nodes, items, D, ("src",), not root_nonmodrs, False, ("lib",))
    if decoys:
        for (p, name, anc) in list(b.placed):
            cands = [p[:-2] + (name,) if len(p) > 2 else None, ("src", name),
                     p[:-1] + (name, name)]
            for st in anc:
                cands.append(p[:-1] + (st, name))
            for c in cands:
                if c and c not in b.files and len(c) >= 2:
                    b.files[c] = {"items": [], "skip": False, "decoy": True}
                    for i in range(1, len(c)):
                        b.dirs.add(c[:i])
    if tweak == "ambiguous" and b.placed:
        p, name, _ = b.placed[0]
        other = p[:-1] + (name, "mod") if p[-1] != "mod" else p[:-2] + (name,)
        if other not in b.files and p[-1] in (name, "mod"):
            b.files[other] = {"items": [], "skip": False, "decoy": True}
            for i in range(1, len(other)):
                b.dirs.add(other[:i])
    if tweak == "missing" and b.placed:
        p, _, _ = b.placed[-1]
        if not any(q[:len(p)] == p and q != p for q in b.files):
            del b.files[p]
    if tweak == "skipdecl" and items:
        items[0]["skip"] = True
    if tweak == "skipdecl_deep":
        # a skipped declaration in a file that is NOT the root
        for (p, _, _) in b.placed:
            its = b.files.get(p, {}).get("items") or []
            if its:
                its[0]["skip"] = True
                break
    if tweak == "skipdecl_nested":
        # a skipped declaration inside an inline module (of any file)
        def first_nested(its):
            for it in its:
                if it["k"] == "inline" and it["items"]:
                    it["items"][0]["skip"] = True
                    return True
                if it["k"] == "inline" and first_nested(it["items"]):
                    return True
            return False
        for pth in sorted(b.files):
            if first_nested(b.files[pth]["items"]):
                break
    if tweak == "cfgif_skip" and items:
        first = items.pop(0)
        first["skip"] = True
        items.insert(0, {"k": "cfgif", "name": "", "rel": [], "items": [first], "skip": False})
    if tweak == "innerskip" and b.placed:
        b.files[b.placed[0][0]]["skip"] = True
    if tweak == "cfgif" and items:
        first = items.pop(0)
        items.insert(0, {"k": "cfgif", "name": "", "rel": [], "items": [first], "skip": False})
    if tweak == "emptydir" and b.placed:
        # the x.rs-next-to-x/ situation of push_inline_mod_directory
        for (p, name, _) in b.placed:
            if p[-1] != "mod":
                b.dirs.add(p[:-1] + (p[-1],))
    opt, target = "none", []
    if tweak in ("skip_children", "ignore", "generated"):
        opt = tweak
        if b.placed:
            target = list(b.placed[0][0])
        elif tweak != "skip_children":
            opt = "none"
    if tweak in ("ignore_root", "generated_root"):
        # the excluded file is the root of the run itself: it is left alone, its modules are not
        opt = tweak.split("_")[0]
        target = list(root)
    return {"root": list(root), "opt": opt, "target": target,
            "files": [{"path": list(p), "items": f["items"], "skip": f["skip"]}
                      for p, f in sorted(b.files.items())],
            "dirs": [list(d) for d in sorted(b.dirs)],
            "meta": {"root_nonmodrs": root_nonmodrs, "fallback": fallback, "path_sub": path_sub,
                     "decoys": decoys, "tweak": tweak, "tree": nodes}}


def universe():
    out = []
    seen = set()
    for nodes in trees(3, 3):
        if not nodes:
            continue
        for rn, fb, ps, dc in itertools.product([False, True], repeat=4):
            for tw in ("none", "ambiguous", "missing", "skipdecl", "innerskip", "cfgif",
                       "emptydir", "skip_children", "ignore", "generated", "skipdecl_deep",
                       "skipdecl_nested", "cfgif_skip", "ignore_root", "generated_root"):
                if tw != "none" and (ps or fb) and tw not in ("emptydir",):
                    continue
                if tw in ("skip_children", "ignore", "generated", "ignore_root", "generated_root") and dc:
                    continue
                sc = scenario(nodes, rn, fb, ps, dc, tw)
                key = json.dumps([sc["files"], sc["dirs"], sc["opt"], sc["target"]],
                                 sort_keys=True)
                if key in seen:
                    continue
                seen.add(key)
                out.append(sc)
    return out


def render_items(items, ind=""):
    s = ""
    for it in items:
        if it["skip"]:
            s += f"{ind}#[rustfmt::skip]\n"
        if it["k"] == "decl":
            s += f"{ind}mod {it['name']};\n"
        elif it["k"] == "path":
            s += f'{ind}#[path = "{"/".join(it["rel"])}.rs"]\n{ind}mod {it["name"]};\n'
        elif it["k"] == "inline":
            s += f"{ind}mod {it['name']} {{\n" + render_items(it["items"], ind + "    ") + f"{ind}}}\n"
        else:
            s += (f"{ind}cfg_if::cfg_if! {{\n{ind}    if #[cfg(unix)] {{\n"
                  + render_items(it["items"], ind + "        ") + f"{ind}    }}\n{ind}}}\n")
    return s


def fpath(base, p):
    return base.joinpath(*p[:-1]) / (p[-1] + ".rs")


def materialise(base, sc):
    for d in sc["dirs"]:
        base.joinpath(*d).mkdir(parents=True, exist_ok=True)
    texts = {}
    for n, f in enumerate(sc["files"]):
        p = fpath(base, f["path"])
        p.parent.mkdir(parents=True, exist_ok=True)
        t = ("#![rustfmt::skip]\n" if f["skip"] else "") + render_items(f["items"]) + \
            f"fn  f{n}( ){{}}\n"
        if sc.get("opt") == "generated" and f["path"] == sc["target"]:
            t = "// @generated by a tool\n" + t
        p.write_text(t)
        texts[tuple(f["path"])] = t
    return texts


def run_one(t):
    idx, sc, base, rustfmt, absolute = t
    d = base / f"s{idx}"
    texts = materialise(d, sc)
    env = core.run_env({"HOME": str(d), "XDG_CONFIG_HOME": str(d / "xdg"),
                        "RUSTFMT_VERIF_TRACE": str(d / "trace.ndjson")})
    rootp = fpath(d, sc["root"])
    arg = [str(rootp) if absolute else str(rootp.relative_to(d))]
    if sc.get("opt") == "skip_children":
        arg = ["--config", "skip_children=true"] + arg
    if sc.get("opt") == "generated":
        arg = ["--config", "format_generated_files=false"] + arg
    if sc.get("opt") == "ignore":
        tp = fpath(d, sc["target"]).relative_to(d)
        (d / "rustfmt.toml").write_text(f'ignore = ["{tp}"]\n')
    try:
        r = subprocess.run([rustfmt] + arg, cwd=d, env=env, capture_output=True, timeout=60)
        code, err = r.returncode, r.stderr.decode("utf-8", "replace")
    except subprocess.TimeoutExpired:
        code, err = 124, "timeout"
    changed = [list(p) for p, t0 in sorted(texts.items())
               if fpath(d, p).read_text(errors="replace") != t0]
    events = []
    tr = d / "trace.ndjson"
    if tr.exists():
        events = [json.loads(x) for x in tr.read_text().splitlines() if x.strip()]
    shutil.rmtree(d, ignore_errors=True)
    return {"changed": changed, "exit": code, "stderr": err[:1500], "events": events}


def key_of(sc):
    m = sc["meta"]
    return (f"tree={json.dumps(m['tree'])}:rn={m['root_nonmodrs']}:fb={m['fallback']}:"
            f"ps={m['path_sub']}:dc={m['decoys']}:tw={m['tweak']}")


def reached_twice(v, base):
    """`Each such file is formatted once even if reached twice': crates in which one file is
    reached through two declarations, under the same or another spelling of its path.  Observed
    through `--check -l` (one line per formatted file that differs): after resolving the
    spellings every real file is listed exactly once."""
    rustfmt = core.bin_path("rustfmt")
    ugly = "fn  k( ) { }\n"
    shapes = {
        "same_path_attr": 'mod b;\n#[path = "b.rs"]\nmod c;\n',
        "dot": 'mod b;\n#[path = "./b.rs"]\nmod c;\n',
        "dotdot_after": 'mod b;\n#[path = "../src/b.rs"]\nmod c;\n',
        "dotdot_before": '#[path = "../src/b.rs"]\nmod c;\nmod b;\n',
        "dotdot_both": '#[path = "../src/b.rs"]\nmod c;\n#[path = "sub/../b.rs"]\nmod d;\n',
        "inline_dotdot": 'mod b;\nmod i {\n    #[path = "../b.rs"]\n    mod c;\n}\n',
        "cfg_attr_twice": '#[cfg_attr(unix, path = "b.rs")]\n#[cfg_attr(windows, path = "b.rs")]\nmod b;\n',
        # a cfg_attr that carries other attributes next to `path`: before it, after it, nested
        "cfg_attr_multi_before": '#[cfg_attr(unix, allow(dead_code), path = "b.rs")]\nmod sys;\n',
        "cfg_attr_multi_after": '#[cfg_attr(unix, path = "b.rs", allow(dead_code))]\nmod sys;\n',
        "cfg_attr_multi_three": '#[cfg_attr(unix, allow(dead_code), deny(unused), path = "b.rs")]\nmod sys;\n',
        "cfg_attr_nested": '#[cfg_attr(unix, cfg_attr(target_os = "linux", path = "b.rs"))]\nmod sys;\n',
        "cfg_attr_multi_default": '#[cfg_attr(unix, allow(dead_code), path = "b.rs")]\nmod c;\n',
    }
    extra_files = {"cfg_attr_multi_default": ["c.rs"]}
    n = 0
    for name, root in shapes.items():
        d = base / f"twice-{name}"
        (d / "src" / "sub").mkdir(parents=True)
        (d / "src" / "i").mkdir()
        (d / "src" / "lib.rs").write_text(root + ugly)
        (d / "src" / "b.rs").write_text(ugly)
        for x in extra_files.get(name, []):
            (d / "src" / x).write_text(ugly)
        r = subprocess.run([rustfmt, "--edition", "2021", "--check", "-l", str(d / "src" / "lib.rs")],
                           cwd=d, env=core.run_env({"HOME": str(d)}), capture_output=True, text=True,
                           timeout=60)
        n += 1
        listed = [str(Path(ln.strip()).resolve()) for ln in r.stdout.split("\n") if ln.strip()]
        want = sorted(str((d / "src" / x).resolve()) for x in ["lib.rs", "b.rs"] + extra_files.get(name, []))
        if sorted(listed) != want or r.returncode != 1:
            v.violation(f"twice:{name}",
                        f"a file reached twice ({name}): --check -l lists "
                        f"{[x.replace(str(d.resolve()) + '/', '') for x in sorted(listed)]}, every file "
                        f"is expected exactly once (exit {r.returncode})",
                        {"root": root, "stdout": r.stdout[-800:], "stderr": r.stderr[-800:]})
    return n


def run(tier, seed, replay=None):
    v = Verdict("C13", tier, seed)
    rng = random.Random(seed)
    core.build(harness=False)
    rustfmt = core.bin_path("rustfmt")
    uni = universe()
    if tier == "quick":
        core_s = [s for s in uni if count(s["meta"]["tree"]) <= 2 and s["meta"]["decoys"]
                  and s["meta"]["tweak"] in ("none", "emptydir")][:140]
        core_s += [s for s in uni if s["meta"]["tweak"] in ("skipdecl_deep", "skipdecl_nested",
                                                             "cfgif_skip")][::6]
        core_s += [s for s in uni if s["meta"]["tweak"] in ("ignore_root", "generated_root")][::5]
        rest = [s for s in uni if s not in core_s]
        rng.shuffle(rest)
        sel = core_s + rest[:360]
    else:
        sel = uni
    with Scratch("c13") as base:
        slim0 = [{k: s[k] for k in ("root", "files", "dirs", "opt", "target")} for s in sel]
        jobs = [(i, s, base, rustfmt, i % 2 == 0) for i, s in enumerate(sel)]
        with ThreadPoolExecutor(max_workers=12) as ex:
            obs = list(ex.map(run_one, jobs))
        recs = []
        for s0, o in zip(slim0, obs):
            r = dict(s0)
            r["changed"] = o["changed"]
            r["exit"] = o["exit"]
            recs.append(r)
        res, states = core.eval_report_all("ModTree", "ModTree.cfg", recs, scratch=base, tag="RES")
        n_model_diff = 0
        for idx, f in res:
            sc, o = sel[idx], obs[idx]
            fails = set(f["fails"])
            if "WalkIsReach" in fails:
                n_model_diff += 1
            if "ExactlyReachable" in fails:
                what = (f"changed files {o['changed']} exit {o['exit']} but the rule gives "
                        f"{'an error' if f['reach_err'] else sorted(f['reach'])}")
                wk = "walk=" + ("err" if f["walk_err"] else "ok") + f":guess={f['guess']}"
                v.violation(f"ExactlyReachable:{wk}:{key_of(sc)}", what,
                            {"scenario": sc, "observed": o, "model": f})
            elif "AsWalk" in fails:
                v.drift += 1
        # `matched by ignore`: the pattern algebra (IgnoreSet.tla) on a fixed universe of pattern
        # lists x where the configuration file lives x how the root is named
        (base / "ign").mkdir()
        irecs, iruns = ignoreuni.observe(base / "ign")
        ifails, istates = ignoreuni.evaluate(irecs, base)
        for idx, f in ifails:
            if "IgnoreSound" in f["fails"]:
                r = irecs[idx]
                v.violation(f"ignore:{r['_key']}",
                            f"ignore list at {r['_key']}: the file was "
                            f"{'left out' if r['ignored'] else 'formatted'}, the patterns say "
                            f"{'ignored' if f['want'] else 'not ignored'}",
                            {"record": {k: r[k] for k in r if k != "pats"}})
        n_twice = reached_twice(v, base)
        o2 = [{"events": o["events"], "roots": [], "mode": "files", "fl": {},
               "tag": key_of(s), "argv": []} for s, o in zip(sel, obs)]
        t_ok, t_rej, tstates = ptrace.validate(o2, base)
        suite_cov = {}
        if tier == "thorough":
            from . import suite
            suite_cov = suite.check(v, "C13", base)
        for rj in t_rej:
            if rj["invariant"] in ptrace.INVS["C13"]:
                v.violation(f"trace:{rj['invariant']}:{rj['key']}",
                            f"recorded trace violates {rj['invariant']}", rj["run_records"][:60])
    for s, o in list(zip(sel, obs))[:3]:
        v.sample({"files": ["/".join(f["path"]) + ".rs" for f in s["files"]],
                  "meta": {k: s["meta"][k] for k in ("tweak", "decoys", "fallback")},
                  "changed": o["changed"], "exit": o["exit"]})
    cov = {"states": states, "transitions": states,
           "traces_validated_against_impl": t_ok,
           "evaluations": len(sel), "distinct_nontrivial": len(sel),
           "rule": "fixed generator universe: module trees (<= 3 modules, depth <= 3, kinds "
                   "name.rs / name/mod.rs / inline / #[path]) x root with/without sibling "
                   "directory x nested/fallback placement x decoys at plausible wrong locations "
                   "x tweaks (ambiguous pair, missing file, skip attributes, cfg_if, empty "
                   "directory, skip_children, ignore, @generated); all scenarios distinct by construction",
           "universe": len(uni), "model_walk_differs_from_rule": n_model_diff,
           "reached_twice_runs": n_twice, "ignore_runs": iruns, "ignore_records": len(irecs),
           "ignore_records_ignored": sum(1 for r in irecs if r["ignored"]), "ignore_states": istates,
           "trace_states": tstates, "exhaustive": tier == "thorough"}
    cov.update(suite_cov)
    return v.finish("model_checking", cov, [
        "every file carries an unformatted fn, so 'formatted' is observed as 'bytes changed'",
        "scenario enumeration is done by the Python generator (fixed universe); Reach and Walk "
        "are evaluated by TLC on every scenario"])
