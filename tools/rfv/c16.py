"""C16 — rustfmt never terminates abnormally.

spec/TermObs.tla (NoEscapedPanic, NoDeath, Finishes, ExitIs01) evaluated by TLC on in-process
runs of the real library (a panic that escapes every containment zone reaches the driver's
catch_unwind and is recorded; the report is rendered the way `main` does) over U-core points
(with diagnostics-producing option vectors) and a fixed universe of token-level mutants;
every abnormal outcome is re-run through the real binary to observe the exit status, and a
sample of mutants runs through the binary with the hook trace validated against
spec/PipelineTrace.tla (the run must end with Exit{0|1}).
"""
import json
import random
import subprocess

from . import core, ignoreuni, ptrace, ucore, universe
from .core import Scratch, ToolError, Verdict, log

DIAG_VECTORS = {
    "d0": {"error_on_line_overflow": True, "error_on_unformatted": True},
    "d1": {"error_on_line_overflow": True, "hard_tabs": True, "tab_spaces": 8},
    "d2": {"error_on_line_overflow": True, "error_on_unformatted": True, "hard_tabs": True,
           "tab_spaces": 3, "wrap_comments": True},
    "d3": {"format_strings": True, "format_macro_matchers": True, "format_code_in_doc_comments": True,
           "tab_spaces": 1},
    "d4": {"float_literal_trailing_zero": "Always", "hex_literal_case": "Lower", "indent_style": "Visual"},
}
NON_ASCII = ("fn f() {\n\tlet s = \"" + "é" * 95 + "\";\n}\n",
             # white space that is longer than one byte in front of a comment's `*`, of code, of `//`
             "fn f() {\n    /* a\n\u3000* b\n\u00a0\u2003* c\n     */\n\u3000let x = 1;\n\u2003// d\n}\n",
             # empty comments inside statements / expressions that have to be laid out again
             "fn f() {\n    let x = foo( /**/ 1,2);\n}\n",
             "fn f() {\n    let y = 1 /**/ + 2;\n    let z /* */ = [ /***/ 3,4 ];\n}\n",
             "fn f() {\n    g( 5 , //\n 6 );\n    static S: u8 = /**/ 1 ;\n}\nconst C: u8 /**/ =   2;\n",
             # a where clause that starts beyond a narrow page (Visual style adds `where `)
             "mod a { mod b { mod c { fn f<T>() where T: Copy {} } } }\n"
             "mod d {\n    mod e {\n        impl<T> S<T> where T: Copy + Clone {\n            fn g<U>(&self) where U: Send {}\n        }\n    }\n}\n",
             # items a formatter may not know: delegation
             "impl Trait for S {\n    reuse   to_reuse::a;\n    reuse to_reuse::{b,  c};\n    fn  g( ){}\n}\n"
             "reuse   free::f;\n",
             "fn g() {\n    // " + "世" * 60 + "\n    let x = 1; // " + "\U0001F98A" * 50 + "\n}\n",
             # literals the parser accepts and rustc rejects later
             "fn h() {\n    let a = (0b1f32, 0o7f64, 1e3, 2., 1_f32, 0x1f32, 1e+3_f64, 0b1e3, 0o1e1f32, "
             "1__.0__e0_, 0xEf32, 08f32, 1f16, 1.0foo);\n}\n",
             "enum E<T>\nwhere\n    T: Copy + Clone + Send + Sync + std::fmt::Debug,\n{\n    // c\n    A,\n}\n"
             "fn k() {\n    {\n        {\n            {\n                {\n                    x(); // 世 trailing\n"
             "                    /* b */\n                }\n            }\n        }\n    }\n}\n")


def outcome_of(o):
    if o.get("timeout"):
        return "timeout"
    if o.get("died"):
        return "died"
    if o.get("panic") is not None:
        return "panic"
    return "ok" if o.get("ok") else "err"


def cli_opts(opts):
    pairs = []
    extra = []
    for k, val in sorted(opts.items()):
        if k == "edition":
            extra += ["--edition", str(val)]
            continue
        v = str(val).lower() if isinstance(val, bool) else str(val)
        pairs.append(f"{k}={v}")
    return (["--config", ",".join(pairs)] if pairs else []) + extra


def run(tier, seed, replay=None):
    v = Verdict("C16", tier, seed)
    rng = random.Random(seed)
    core.build()
    rustfmt = core.bin_path("rustfmt")
    jobs = []
    pts = universe.points(tier, seed, files_quick=300, narrow=True)
    dk = sorted(DIAG_VECTORS)
    for (pid, name, text, opts) in pts:
        hp = core.fnv(pid.encode())
        o = dict(opts)
        o.update(DIAG_VECTORS[dk[hp % len(dk)]])
        jobs.append({"id": len(jobs), "src": text, "opts": o, "want": [],
                     "_pid": pid + "+" + dk[hp % len(dk)]})
    for (pid, name, text, opts) in universe.option_points(tier, seed):
        jobs.append({"id": len(jobs), "src": text, "opts": opts, "want": [], "_pid": pid})
        jobs.append({"id": len(jobs), "src": universe.dirty(text, core.fnv(pid.encode())),
                     "opts": dict(opts, max_width=40), "want": [], "_pid": pid + ":dirty40"})
    for (pid, name, text, opts) in universe.option_pair_points(tier, seed):
        jobs.append({"id": len(jobs), "src": text, "opts": opts, "want": [], "_pid": pid})
    # the template families re-indented with tabs / odd numbers of blanks
    for (name, text) in universe.boundary_sources():
        hn = core.fnv(name.encode())
        if tier != "thorough" and hn % 4:
            continue
        for unit, tag in (("\t", "tab"), ("   ", "sp3"), (" ", "sp1")):
            jobs.append({"id": len(jobs), "src": universe.reindent(text, unit),
                         "opts": {"max_width": 100, "style_edition": universe.STYLE_EDITIONS[hn % 3]},
                         "want": [], "_pid": f"{name}@w=100:reindent-{tag}"})
    # bundles of layout options that meet in one decision (single-line forms of items)
    bundles = [{"fn_single_line": True, "empty_item_single_line": False},
               {"fn_single_line": True, "where_single_line": True, "max_width": 40},
               {"fn_single_line": True, "brace_style": "AlwaysNextLine"},
               {"struct_lit_single_line": False, "empty_item_single_line": False, "fn_single_line": True,
                "control_brace_style": "AlwaysNextLine"},
               {"fn_single_line": True, "max_width": 60}, {"fn_single_line": True, "max_width": 100}]
    for (name, text) in universe.boundary_sources():
        hn = core.fnv(("bundle" + name).encode())
        if tier != "thorough" and hn % 3:
            continue
        for bi, b in enumerate(bundles):
            jobs.append({"id": len(jobs), "src": text, "opts": dict(b), "want": [],
                         "_pid": f"{name}:bundle{bi}"})
    # barely usable pages (max_width / tab_spaces >= 5 holds, little more) on the template families
    for (name, text) in universe.boundary_sources():
        hn = core.fnv(("page" + name).encode())
        if tier != "thorough" and hn % 3:
            continue
        for (w, ts) in ((40, 8), (45, 8), (47, 8), (30, 6), (24, 4), (20, 4), (35, 7)):
            jobs.append({"id": len(jobs), "src": text,
                         "opts": {"max_width": w, "tab_spaces": ts,
                                  "style_edition": universe.STYLE_EDITIONS[hn % 3]},
                         "want": [], "_pid": f"{name}@w={w},ts={ts}:page"})
    # every sequence of 1..3 line ends drawn from LF, CR LF, CR CR LF and a lone CR, between a
    # comment, two items and inside a block
    import itertools as _it
    pieces = ["\n", "\r\n", "\r\r\n", "\r"]
    k = 0
    for n in (1, 2, 3):
        for seq in _it.product(pieces, repeat=n):
            t = "".join(seq)
            text = f"// c\n{t}fn a(){{}}\n{t}fn b() {{\n    let x = 1;{t}    let y = 2;\n}}\n"
            jobs.append({"id": len(jobs), "src": text, "opts": {"max_width": 100}, "want": [],
                         "_pid": f"gen/lineends{k}"})
            k += 1
    # cfg_if! / cfg_match! arms that hold something other than items (file input: the module
    # resolver scans these macros)
    for k, body in enumerate(("+", ";", "mod a; +", "1 2 3", "fn f() {} ;", "#[x]", "pub", "mod")):
        for mac in (f"cfg_if! {{\n    if #[cfg(foo)] {{\n        {body}\n    }}\n}}\n",
                    f"cfg_match! {{\n    cfg(foo) => {{ {body} }}\n    _ => {{ {body} }}\n}}\n"):
            jobs.append({"id": len(jobs), "src": mac + "fn  z( ){}\n", "opts": {"max_width": 100},
                         "want": [], "name": "lib.rs", "_pid": f"gen/cfgarm{k}:{mac[:9]}"})
    for i, text in enumerate(NON_ASCII):
        for d in dk:
            for w in (20, 40, 100):
                o = dict(DIAG_VECTORS[d])
                o["max_width"] = w
                jobs.append({"id": len(jobs), "src": text, "opts": o, "want": [],
                             "_pid": f"gen/nonascii{i}@w={w}+{d}"})
    # the mutation universe: fixed seeds per (file, width)
    files = universe.corpus()
    muts = []
    for fi, (name, text) in enumerate(files):
        if len(text) > 20000:
            continue
        for m in range(1, 7):
            w = universe.WIDTHS[(fi + m) % len(universe.WIDTHS)]
            muts.append((f"{name}@w={w}:m{m}", text, {"max_width": w}, m * 7919 + fi))
    if tier == "quick":
        core_m = muts[::40]
        rest = list(muts)
        rng.shuffle(rest)
        muts = core_m + rest[:1500]
    for (pid, text, opts, ms) in muts:
        jobs.append({"id": len(jobs), "src": text, "opts": opts, "want": [], "mutate": ms,
                     "_pid": pid})
    with Scratch("c16") as sc:
        res = ucore.run_jobs([{k: j[k] for k in j if not k.startswith("_")} for j in jobs], sc,
                             timeout=25)
        recs, meta = [], []
        abnormal = []
        for j, o in zip(jobs, res):
            oc = outcome_of(o)
            rec = {"outcome": oc, "render_panic": bool(o.get("render_panic")), "exit": -1,
                   "slow": False}
            if oc in ("panic", "died", "timeout") or rec["render_panic"]:
                abnormal.append(len(recs))
            recs.append(rec)
            meta.append((j, o))
        # abnormal outcomes: what does the real binary do?
        for idx in abnormal[:150]:
            j, o = meta[idx]
            job2 = {k: j[k] for k in j if not k.startswith("_")}
            job2["want"] = ["src"]
            job2["opts"] = {"disable_all_formatting": True}
            src = j["src"]
            if "mutate" in j:
                back = ucore.run_jobs([dict(job2, id=0)], sc, timeout=25)[0]
                src = back.get("src", src)
            f = sc / "abn.rs"
            f.write_text(src)
            try:
                r = subprocess.run([rustfmt, "--config", "skip_children=true"] + cli_opts(j["opts"])
                                   + ["--emit", "stdout", str(f)], cwd=sc, env=core.run_env(),
                                   capture_output=True, timeout=60)
                recs[idx]["exit"] = r.returncode if r.returncode >= 0 else r.returncode - 1
                meta[idx][1]["bin_stderr"] = r.stderr.decode("utf-8", "replace")[-600:]
            except subprocess.TimeoutExpired:
                recs[idx]["exit"] = -1
        fails, ostates = core.eval_report("TermObs", "TermObs.cfg", recs, scratch=sc, chunk=30000)
        # no pattern list, wherever its configuration file lives, makes the run die (IgnoreSet.tla)
        (sc / "ign").mkdir()
        irecs, iruns = ignoreuni.observe(sc / "ign")
        ifails, istates = ignoreuni.evaluate(irecs, sc)
        # the command-line front end (Cli.tla): every flag combination ends with status 0 or 1
        from . import cliuni
        (sc / "cli").mkdir()
        crecs = cliuni.observe(sc / "cli", tier)
        cfails, cstates = cliuni.evaluate(crecs, sc)
        for idx, f in cfails:
            if "ExitIs01" in f["fails"]:
                r = crecs[idx]
                v.violation(f"cli-exit:{' '.join(r['_argv'])}",
                            f"`rustfmt {' '.join(r['_argv'])}` ends with status {r['o']['exit']}",
                            {"argv": r["_argv"], "observed": r["o"], "stderr": r["_stderr"]})
        # informational commands with unusual PATH arguments
        for argv in (["--print-config", "current", "/"], ["--print-config", "current", "."],
                     ["--print-config", "current", ".."], ["--print-config", "current", "nosuch/x.rs"],
                     ["--print-config", "minimal", "/"], ["--config-path", "/", "a.rs"],
                     ["--config-path", "nosuch.toml", "a.rs"], ["/"], ["."], [""]):
            dd = sc / "cli" / "odd"
            dd.mkdir(exist_ok=True)
            (dd / "a.rs").write_text("fn  main( ){}\n")
            try:
                r = subprocess.run([rustfmt] + argv, cwd=dd, env=core.run_env({"HOME": str(dd)}),
                                   input=b"", capture_output=True, timeout=60)
                code = r.returncode
            except subprocess.TimeoutExpired:
                code = 124
            for x in dd.glob("rustc-ice-*.txt"):
                x.unlink()
            if code not in (0, 1):
                v.violation(f"cli-exit:{' '.join(argv)}",
                            f"`rustfmt {' '.join(argv)}` ends with status {code}",
                            {"argv": argv, "stderr": r.stderr.decode("utf-8", "replace")[-800:]})
        seen_runs = set()
        for idx, f in ifails:
            r = irecs[idx]
            rk = r["_key"].rsplit(":", 1)[0]
            if "NoDeath" in f["fails"] and rk not in seen_runs:
                seen_runs.add(rk)
                v.violation(f"ignore-died:{rk}",
                            f"rustfmt --check -l with the ignore list at {rk} ends with status "
                            f"{r['_exit']}", {"stderr": r["_stderr"], "key": rk})
        # a sample of mutants through the binary with the hook trace
        sample = [j for j in jobs if "mutate" in j][:: (40 if tier == "quick" else 8)]
        tobs = []
        for k, j in enumerate(sample):
            back = ucore.run_jobs([{"id": 0, "src": j["src"], "mutate": j["mutate"], "want": ["src"],
                                    "opts": {"disable_all_formatting": True}}], sc, timeout=25)[0]
            f = sc / f"t{k}.rs"
            f.write_text(back.get("src", j["src"]))
            tr = sc / f"t{k}.ndjson"
            env = core.run_env({"RUSTFMT_VERIF_TRACE": str(tr)})
            try:
                r = subprocess.run([rustfmt, "--config", "skip_children=true", "--check", str(f)],
                                   cwd=sc, env=env, capture_output=True, timeout=60)
                code = r.returncode
            except subprocess.TimeoutExpired:
                code = 124
            evs = [json.loads(x) for x in tr.read_text().splitlines()] if tr.exists() else []
            tobs.append({"events": evs, "roots": [], "mode": "check", "fl": {}, "tag": j["_pid"],
                         "argv": [], "code": code})
            if code not in (0, 1):
                v.violation(f"binary-exit:{j['_pid']}", f"rustfmt --check exits {code} on mutant "
                            f"{j['_pid']}", {"point": j["_pid"], "exit": code})
        t_ok, t_rej, tstates = ptrace.validate(tobs, sc)
        suite_cov = {}
        if tier == "thorough":
            from . import suite
            suite_cov = suite.check(v, "C16", sc)
        for rj in t_rej:
            if rj["invariant"] in ("TrExit", "TrEnds"):
                v.violation(f"trace:{rj['invariant']}:{rj['key']}",
                            f"recorded trace violates {rj['invariant']}", rj["run_records"][:40])
    for idx, f in fails:
        j, o = meta[idx]
        rec = recs[idx]
        loc = (o.get("panic") or o.get("caught_panic") or "")[:160]
        kind = rec["outcome"] if rec["outcome"] != "ok" else "render_panic"
        site = loc.split(": ")[0].replace(str(core.REPO) + "/", "")
        if "/registry/src/" in site:
            site = site.split("/registry/src/")[1].split("/", 1)[1]
        v.violation(f"{kind}:{j['_pid']}:{site}",
                    f"{f['fails']} at {j['_pid']}: outcome {rec['outcome']}"
                    f"{' (report rendering panicked)' if rec['render_panic'] else ''}, binary exit "
                    f"{rec['exit']}; {loc}",
                    {"point": j["_pid"], "opts": j["opts"], "mutate": j.get("mutate"),
                     "result": {k: o.get(k) for k in ("panic", "died", "timeout", "render_panic",
                                                      "bin_stderr", "err")}})
    for (j, o), rec in list(zip(meta, recs))[-2:]:
        v.sample({"point": j["_pid"], "outcome": rec["outcome"]})
    oc_count = {}
    for r in recs:
        oc_count[r["outcome"]] = oc_count.get(r["outcome"], 0) + 1
    cov = {"evaluations": len(jobs) + len(sample),
           "distinct_nontrivial": sum(1 for (j, o) in meta if "mutate" in j and not o.get("ok")
                                      or o.get("session", {}).get("parsing")),
           "rule": "U-core points (narrow widths included) under diagnostics-producing option "
                   "vectors, non-ASCII over-long lines, and a fixed universe of token-level mutants "
                   "(6 seeds per corpus file: deletion, duplication, swap, truncation, delimiter "
                   "imbalance, non-ASCII / keyword insertion); distinct_nontrivial = mutants that "
                   "rustfmt rejects or reports a parse error for",
           "outcomes": oc_count, "mutants": len([j for j in jobs if "mutate" in j]),
           "binary_traces": len(sample), "traces_validated_against_impl": t_ok,
           "ignore_runs": iruns, "cli_combinations": len(crecs),
           "obs_states": ostates + tstates + istates + cstates, "samples": v.samples}
    cov.update(suite_cov)
    return v.finish("exploration", cov, [
        "in-process: a panic reaching the driver's catch_unwind is what would kill the binary; "
        "every such outcome is re-run through the binary for the exit status",
        "a point slower than 25 s counts as not finishing"])
