"""U-core: the fixed formatter universe (DESIGN.md §4.2, §7).

Points are (source file, max_width, style_edition, option vector).  The universe is a pure
function of /repo's corpus and of the constants below; VERIF_SEED only selects the quick
subset.  Every point is used for a property only if the run reports no error (the
properties' own precondition)."""
import hashlib
import json
import random
from pathlib import Path

from . import core

WIDTHS = [40, 60, 80, 100, 120, 200]
NARROW = [20, 30]
STYLE_EDITIONS = ["2015", "2021", "2024"]
VECTORS = {
    "v0": {},
    "v1": {"hard_tabs": True},
    "v2": {"imports_granularity": "Crate", "group_imports": "StdExternalCrate"},
    "v3": {"wrap_comments": True, "normalize_comments": True, "comment_width": 60},
    "v4": {"brace_style": "AlwaysNextLine", "control_brace_style": "AlwaysNextLine",
           "fn_params_layout": "Vertical"},
    "v5": {"use_small_heuristics": "Max", "match_block_trailing_comma": True,
           "trailing_comma": "Never"},
    "v6": {"tab_spaces": 2, "struct_lit_single_line": False, "reorder_impl_items": True,
           "force_multiline_blocks": True},
    "v7": {"use_field_init_shorthand": True, "use_try_shorthand": True,
           "condense_wildcard_suffixes": True, "merge_derives": True,
           "hex_literal_case": "Upper", "normalize_doc_attributes": True},
}
# options under which C01's closed set / C03's "same text" clause do not apply as stated
REWRITES_COMMENTS = {"v3"}


_SRC_CACHE = None


def frozen_src():
    """src/*.rs of the FROZEN pinned sources (reference/src.tar): rustfmt's own sources are
    part of the corpus as texts, and a text of the universe must not change when the tree under
    test does (a repair or a change under test would otherwise shift the universe)."""
    global _SRC_CACHE
    if _SRC_CACHE is None:
        import re
        import tarfile
        out = []
        with tarfile.open(core.VERIF / "reference" / "src.tar") as tf:
            for m in tf.getmembers():
                nm = m.name[2:] if m.name.startswith("./") else m.name
                if m.isfile() and re.fullmatch(r"src/[^/]+\.rs", nm):
                    out.append((nm, tf.extractfile(m).read()))
        _SRC_CACHE = sorted(out)
    return _SRC_CACHE


def corpus(include_src=True):
    files = sorted((core.REPO / "tests" / "source").glob("*.rs")) + \
        sorted((core.REPO / "tests" / "target").glob("*.rs"))
    raw = [(str(p.relative_to(core.REPO)), p.read_bytes()) for p in files]
    if include_src:
        raw += frozen_src()
    out = []
    for name, b in raw:
        try:
            t = b.decode("utf-8")
        except UnicodeDecodeError:
            continue
        if len(t) <= 60000:
            out.append((name, t))
    return out


def points(tier, seed, per_file_quick=2, files_quick=260, narrow=False):
    """-> list of (point id, file, text, opts).  thorough: the stratified full product
    (every file x every width x 2 style editions x 3 vectors, rotating); quick: a canary
    core (default options, widths 100 and 60) on files_quick files + seed-selected points."""
    files = corpus()
    widths = WIDTHS + (NARROW if narrow else [])
    vkeys = sorted(VECTORS)
    pts = []
    for i, (name, text) in enumerate(files):
        for wi, w in enumerate(widths):
            for si in range(2):
                se = STYLE_EDITIONS[(i + wi + si * 2) % len(STYLE_EDITIONS)]
                for k in range(3):
                    vk = vkeys[(i + wi * 3 + si + k * 3) % len(vkeys)] if k else "v0"
                    pts.append((name, text, w, se, vk))
    if tier != "thorough":
        # quick = a subset of the SAME list: a fixed canary core (default options, width 100)
        # on every 4th file, plus seed-selected points
        rng = random.Random(seed)
        core_pts = [p for j, p in enumerate(pts) if p[2] == 100 and p[4] == "v0"
                    and (files.index((p[0], p[1])) % 4 == 0)] if False else \
            [p for p in pts if p[2] == 100 and p[4] == "v0"][::8]
        rest = list(pts)
        rng.shuffle(rest)
        pts = core_pts + rest[:files_quick * per_file_quick]
    out = []
    seen = set()
    for (name, text, w, se, vk) in pts:
        pid = f"{name}@w={w},se={se},{vk}"
        if pid in seen:
            continue
        seen.add(pid)
        opts = dict(VECTORS[vk])
        opts["max_width"] = w
        opts["style_edition"] = se
        out.append((pid, name, text, opts))
    return out


def relayout(text, seed):
    """A token-preserving perturbation of the layout: trailing blanks removed, runs of blank
    lines doubled or collapsed, indentation of lines outside string/comment context reduced.
    (Only line-level edits that cannot change tokens: lines are re-indented, never joined.)"""
    rng = random.Random(seed)
    out = []
    in_block = False
    for ln in text.split("\n"):
        s = ln.rstrip()
        stripped = s.lstrip()
        risky = in_block or '"' in s or "/*" in s or "*/" in s or stripped.startswith("//") \
            or stripped.startswith("*") or "r#" in s or "\\" in s
        if "/*" in s and "*/" not in s[s.index("/*"):]:
            in_block = True
        elif "*/" in s:
            in_block = False
        if not risky and stripped:
            ind = len(s) - len(stripped)
            s = " " * rng.choice([0, ind, max(0, ind - 4), ind + 3]) + stripped
        out.append(s)
        if not stripped and rng.random() < 0.3 and not risky:
            out.append("")
    return "\n".join(out)


def boundary_sources():
    """Width-boundary sweep: constructs whose layout flips when a padding identifier grows by
    one column -- the systematic way to land on `fits / does not fit` edges at any max_width.
    Deterministic; part of the fixed universe."""
    out = []
    for n in range(1, 64, 3):
        a = "a" * n
        out.append((f"gen/paren2_{n}", f"fn f() {{\n    let x = (({a} + bbbbbbbb * cccccccc));\n}}\n"))
        out.append((f"gen/paren3_{n}", f"fn f() {{\n    foo(((({a} - bbbbbbbbbbbb))), c);\n}}\n"))
        out.append((f"gen/call_{n}", f"fn f() {{\n    let v = function_name({a}, second_argument, third_argument);\n}}\n"))
        out.append((f"gen/chain_{n}", f"fn f() {{\n    let v = {a}.method_one().method_two(arg).method_three();\n}}\n"))
        out.append((f"gen/ret_{n}", f"fn f() -> u32 {{\n    return {a} + some_function(bbbbbbbbbbbbbbbb)\n}}\n"))
        out.append((f"gen/struct_{n}", f"fn f() {{\n    let s = Struct {{ field_one: {a}, field_two: bbbbbbbbbb }};\n}}\n"))
        out.append((f"gen/arm_{n}", f"fn f(x: u32) {{\n    match x {{\n        1 => // arm => comment\n            {a},\n        _ => (({a})),\n    }}\n}}\n"))
        out.append((f"gen/sig_{n}", f"fn {a}(first: u32, second: &str) -> Result<u32, Error> where T: Clone {{\n}}\n"))
        out.append((f"gen/negimpl_{n}", f"unsafe impl<T: {a}> !Send for Wrapper<T> {{}}\nimpl<'a, T: ?Sized + {a}> !Sync for &'a mut T where T: Clone {{}}\n"))
        out.append((f"gen/fieldgroups_{n}", f"struct S {{\n    {a}: u32,\n    bb: u32,\n\n    ccc: u32,\n    d: u32,\n}}\n"
                    f"enum E {{\n    V {{\n        {a}: u32,\n        bb: u32,\n\n        ccc: u32,\n    }},\n    W = 1,\n    Xyz = 22,\n}}\n"))
        out.append((f"gen/dynty_{n}", f"fn f(x: &(dyn Trait{a} + OtherTrait + Send + Sync)) -> Box<(dyn Fn(u32) -> u32 + 'static)> {{\n    let y: &(dyn Trait{a} + Send) = x;\n}}\n"))
        out.append((f"gen/castarg_{n}", f"fn f() {{\n    let v = reg_{a}(\"first line\nsecond line\", value as &(dyn SomeLongTraitNameNumberOne + SomeLongTraitNameNumberTwo + Send + Sync));\n}}\n"))
        out.append((f"gen/tyargs_{n}", f"fn f() {{\n    let v: Map<Key{a}, &(dyn SomeLongTraitNameNumberOne + SomeLongTraitNameNumberTwo + Send)> = make::<Key{a}, (u32, &(dyn Other + Sync))>(1, 2);\n}}\n"))
        out.append((f"gen/mlstrarg_{n}", f"fn f() {{\n    foo(\"line one\n    line two\", {a}, second_argument, |x| x + 1);\n}}\n"))
        out.append((f"gen/floatlit_{n}", f"fn f() {{\n    let v{a} = 4.00.sqrt() + 16.0_0.max(1.) + 2.0.min(3.);\n    let r = ((1.50)..(2.5), 1.0_.powi(2), 7.50.abs(), 1e3.abs(), 0x1F_u32, 0xAb, 1_000.5_f64, 2E-3);\n}}\n"))
        out.append((f"gen/charlit_{n}", f"fn f(c: char, d: u8) -> bool {{\n    let q = {a} == '\"' || dddddddd == b'\"' || c == '\\'' || eeeeeeee;\n    return c == '\"' && {a};\n}}\n"))
        out.append((f"gen/uselong_{n}", f"use crate::{{alpha::Thing, generated_{a}::protocol_buffers_v3::Message, zeta}};\nuse a::{{b::{{c, generated_{a}::deeper_module_name::Deep}}, d}};\n"))
        out.append((f"gen/macdef_{n}", f"macro_rules! check_{a} {{\n    ($e:expr, $i:expr) => {{\n        /// Fails when resized or zipped.\n        if   $e != $i {{ panic!(\"size mismatch in zip: {{}}\", $e); }}\n    }};\n}}\n"))
        out.append((f"gen/trychain_{n}", f"fn f() -> Result<u32, E> {{\n    let v = r#try!(context.{a}(argument_one)).config.test().method_two(argument_two);\n    let w = r#try!(r#try!(open({a}))).field_name.method_three(cccccccc, dddddddd);\n    Ok(v)\n}}\n"))
        out.append((f"gen/mdcomment_{n}", f"// A paragraph line that is definitely longer than the comment width of eighty columns, padded {a} so that it must be wrapped.\n// - a list item at the very end of the comment, long enough to need wrapping after the tail of the paragraph above it\nfn f() {{}}\n\n/// Documentation paragraph that is definitely longer than the comment width of eighty columns {a} and must be wrapped as well.\n/// 1. a numbered item at the very end, also long enough to need wrapping once the paragraph above has been wrapped\nfn g() {{}}\n"))
        out.append((f"gen/uchain_{n}", f"fn f() {{\n    let ok = привет_мир_{a} || ещё_один_идентификатор || третий_идентификатор || x;\n    let s = \"строка из кириллицы {a}\" == имя_переменной && другое_имя_переменной && z;\n}}\n"))
        out.append((f"gen/parenattr_{n}", f"fn f() {{\n    let x = (#[allow(unused)] ({a} + bbbbbbbb));\n    let y = ((#[cfg(unix)] (({a} - cccccccc))));\n    foo((#[allow(unused_parens)] ({a})), 2);\n}}\n"))
        out.append((f"gen/skipattr_{n}", f"impl S {{\n    #[rustfmt::skip]\n    /* keep the table aligned */\n    #[inline]\n    fn foo{a}(&self) {{}}\n\n    #[allow(unused)]\n    // a line comment\n\n    #[rustfmt::skip]\n    fn bar(&self)   {{}}\n}}\n\n#[derive(Debug)]\n// between attributes\n#[rustfmt::skip]\nstruct T{a} {{ a:u8 }}\n"))
        out.append((f"gen/deepmac_{n}", f"mod a {{\n    mod b {{\n        mod c {{\n            mod d {{\n                macro_rules! m{a} {{\n                    () => {{\n                        1\n                    }};\n                    ($x:expr) => ($x + {a});\n                }}\n                fn f() {{\n                    let v = m{a}!(1);\n                }}\n            }}\n        }}\n    }}\n}}\n"))
        out.append((f"gen/userun_{n}", f"use alpha::{{beta, gamma}};\nuse delta::{a};\nuse epsilon::{{zeta, eta::{{theta, iota}}}};\nuse crate as root_{a};\nuse super::{{kappa as k, lambda}};\n\nfn x() {{}}\n"))
        out.append((f"gen/deriveattr_{n}", f"#[derive(Debug)]\n\n#[repr(C)]\nstruct S{a};\n\n#[derive(Clone)]\n// comment in the gap\n\n#[cfg(unix)]\n#[derive(Copy)]\n\n/// doc after a derive\n#[allow(unused)]\n\n#[derive(PartialEq, Eq)]\nenum E{a} {{\n    A,\n}}\n"))
        out.append((f"gen/jumpblock_{n}", f"fn f(xs: &[u32], opt: Option<u32>) -> u32 {{\n    let Some(v{a}) = opt else {{ return 0; }};\n    let c = || {{ return xs[0]; }};\n    for x in xs {{\n        match x {{\n            0 => {{ continue; }}\n            1 => {{ return {a}; }}\n            _ => {{ break; }}\n        }}\n    }}\n    if v{a} > 1 {{ return 1; }} else {{ return 2; }}\n}}\n"))
        out.append((f"gen/macstmt_{n}", f"macro_rules! swap_{a} {{\n    ($a:ident, $b:ident) => {{\n        let tmp = $a; $a = $b; $b = tmp;\n    }};\n    ($x:expr) => {{\n        $x + {a}\n    }};\n}}\n\n/// ```\n/// let  v{a} = 1;\n/// assert_eq!(v{a}, 1);\n/// ```\nfn documented() {{}}\n"))
        out.append((f"gen/constlong_{n}", f"pub const LONG_NAME_{a.upper()}: some_crate::some_module::another_module::yet_another_module::SomeVeryLongTypeName = 1;\nstatic ST_{a.upper()}: some_crate::some_module::another_module::yet_another_module::AnotherLongTypeName<u8> = make();\ntrait T {{\n    const ASSOC_{a.upper()}: some_crate::some_module::another_module::yet_another::SomeVeryLongTypeName;\n}}\n"))
        out.append((f"gen/colonpath_{n}", f"struct P{a} {{ x: ::std::string::String, y: ::core::option::Option<u8> }}\nfn f{a}(y: ::core::option::Option<u8>) {{\n    let z: ::std::vec::Vec<u8> = v;\n}}\n"))
        out.append((f"gen/attrmisc_{n}", f"type F{a} = fn(#[cfg(x)] u8, #[cfg(y)] b: u16);\nfn f(x: f64, t: (u8, u8, u8)) {{\n    let c = || #[allow(unused)] {{ foo({a}) }};\n    let (.., _, _) = t;\n    let (p{a}, _, _) = t;\n}}\n"))
        out.append((f"gen/floatrange_{n}", f"fn f{a}(x: f64) {{\n    match x {{\n        1. ..=2. => {{}}\n        3. .. => {{}}\n        4.0..=5.0 => {{}}\n        _ => {{}}\n    }}\n}}\n"))
        out.append((f"gen/usenest1_{n}", f"use foo::{{b::{{a{a}}}, b::c}};\nuse x::{{y::{{z}}, y::w, y::{{v::{{u}}}}}};\npub use m::{{n::{{o}}, n::{{p}}}};\n\nfn x() {{}}\n"))
        out.append((f"gen/loopsemi_{n}", f"fn f(flag: &Flag, xs: &[u32]) {{\n    while !flag.load({a}) {{}} ;\n    loop {{\n        break\n    }} ;\n    for x in xs {{\n        g(x)\n    }} ;\n    let y{a} = 1;\n}}\n"))
        out.append((f"gen/binder_{n}", f"fn apply<F>(f: F)\nwhere\n    F: for<'first, 'second, 'third> Fn(&'first str, &'second str) -> &'third str,\n    for<'x{a}> &'x{a} F: Copy,\n{{\n}}\ntype Cb{a} = for<'first_lifetime, 'second_lifetime> fn(&'first_lifetime u8, &'second_lifetime u8);\nfn g(x: &dyn for<'long_lifetime_name_{a}> Fn(&'long_lifetime_name_{a} u8)) {{}}\n"))
        out.append((f"gen/emptyfn_{n}", f"fn e{a}(first_parameter: u32, second_parameter: u32) {{}}\nimpl S {{\n    fn m{a}(&self) {{}}\n    fn n(&self) -> u32 {{\n        {a}\n    }}\n}}\nstruct Empty{a} {{}}\nenum Never{a} {{}}\ntrait Marker{a} {{}}\n"))
        out.append((f"gen/tuple1_{n}", f"fn f((a,): (u32,), t: (u8,)) -> (u32,) {{\n    let (x,) = t;\n    let v{a} = match t {{\n        (y,) => y,\n    }};\n    for (k,) in items {{\n        g(|(c,)| c, Some((k,)), (x,), [(v{a},)]);\n    }}\n    if let Some((w,)) = opt {{\n        return ({a},);\n    }}\n    (a,)\n}}\n"))
        out.append((f"gen/labelblock_{n}", f"fn f() {{\n    let x = 'a: {{ break 'a value_{a} }};\n    g(|| 'b: {{ break 'b {a} }}, 'c: {{ break 'c 1 }});\n    let y = Some('outer: {{ break 'outer compute({a}) }});\n}}\n"))
        out.append((f"gen/closurefit_{n}", f"fn f(y: u32) {{\n    consume(|x| x.method({a}) + bbbbbbbb);\n    consume(|x| x.method({a}a) + bbbbbbbb);\n    consume(|x| x.method({a}aa) + bbbbbbbb);\n    let h = match y {{\n        1 => |x| x.method({a}) + bbbbbbbbbbbb,\n        2 => |x| x.method({a}a) + bbbbbbbbbbbb,\n        _ => |x| x.method({a}aa) + bbbbbbbbbbbb,\n    }};\n}}\n"))
        out.append((f"gen/wraptoken_{n}", f"// A first comment line that is long enough to be wrapped because it is longer than the comment width {a} of eighty columns.\n// 0123456789abcdef0123456789abcdef0123456789abcdef0123456789abcdef0123456789abcdef0123456789abcdef{a} and a tail of words\nfn f() {{\n    let x = 1;\n    // Another comment line, inside a function body this time, long enough to be wrapped {a} at eighty columns.\n    // some_crate::some_module::another_module::yet_another_module::and_one_more::SomeVeryLongTypeName{a} tail words\n    let y = 2;\n}}\n"))
        out.append((f"gen/quals_{n}", f"pub(crate) const unsafe extern \"C\" fn {a}<'a, T>(x: &'a mut T) -> impl Iterator<Item = &'a T> + 'a {{}}\npub async unsafe fn g{a}(self: Pin<&mut Self>) {{}}\n"))
    return out


def reindent(text, unit):
    """the same text with every leading group of four spaces replaced by `unit` (a tab, three
    spaces, one space): layouts a formatter meets in the wild and has to survive"""
    out = []
    for ln in text.split("\n"):
        k = 0
        while ln.startswith("    ", 4 * k):
            k += 1
        out.append(unit * k + ln[4 * k:])
    return "\n".join(out)


def kindmix_sources():
    """Constructs whose element ORDER is decided by a comparator under an option: every
    sequence of length 2..4 over the element kinds, so that every ordered pair of kinds meets
    in both orders and next to every third kind.  -> (name, text, opts)"""
    import itertools
    out = []
    kinds = {"T": "type T{i} = u8;", "C": "const C{i}: u8 = 0;", "F": "fn f{i}() {{}}",
             "M": "mac{i}!(x);"}
    for n in (2, 3, 4):
        for seq in itertools.product("TCFM", repeat=n):
            body = "\n".join("    " + kinds[k].format(i=i) for i, k in enumerate(seq))
            out.append((f"gen/implmix_{''.join(seq)}", f"impl S {{\n{body}\n}}\n",
                        {"reorder_impl_items": True}))
    return out


# names a formatter may treat specially: the macros of std / core, log, tracing, anyhow, and
# a few that certainly are nobody's special case
MACRO_NAMES = ["assert", "assert_eq", "assert_ne", "cfg", "column", "compile_error", "concat", "dbg",
               "debug_assert", "debug_assert_eq", "debug_assert_ne", "env", "eprint", "eprintln",
               "file", "format", "format_args", "include", "include_bytes", "include_str", "line",
               "matches", "module_path", "option_env", "panic", "print", "println", "stringify",
               "thread_local", "todo", "try", "unimplemented", "unreachable", "vec", "write",
               "writeln", "trace", "debug", "info", "warn", "error", "log", "event", "span",
               "bail", "ensure", "anyhow", "lazy_static", "my_mac", "foo"]
ATTR_NAMES = ["fail", "derive", "cfg", "cfg_attr", "doc", "allow", "deprecated", "inline", "test",
              "must_use", "repr", "error", "serde", "my_attr"]


def macro_sources(names=None):
    """Macro-call statements whose argument layout flips (one line / format-string special
    layout / vertical) as a padding identifier grows.  -> (name, text)"""
    out = []
    macs = names or ["assert", "assert_eq", "assert_ne", "debug_assert_eq", "write", "writeln",
                     "println", "format", "vec", "matches", "panic", "my_mac", "info", "eprintln"]
    for m in macs:
        for n in (1, 9, 17, 25, 33, 41, 49):
            a = "a" * n
            out.append((f"gen/mac_{m}_{n}",
                        f"fn f() {{\n    {m}!({a}, bbbbbbbb, \"text {{}} {{}}\", cccccccc, dddddddd);\n}}\n"))
            out.append((f"gen/macexpr_{m}_{n}",
                        f"fn f() {{\n    let v = {m}!({a}, bbbbbbbb, \"text {{}} {{}}\", cccccccc, dddddddd);\n}}\n"))
    return out


def name_sources():
    """Sources whose layout may depend on a NAME looked up in a table (special-case macros and
    attributes): every name x paddings around the fit boundaries.  -> (name, text)"""
    out = []
    for m in MACRO_NAMES:
        for n in (1, 17, 33, 49):
            a = "a" * n
            out.append((f"gen/name_mac_{m}_{n}",
                        f"fn f() {{\n    {m}!(\"text {{}} {{}} {{}}\", {a}, bbbbbbbb, cccccccc, dddddddd);\n"
                        f"    {m}!({a}, bbbbbbbb, \"text {{}} {{}}\", cccccccc, dddddddd);\n}}\n"))
    # identifier shapes in import lists and across adjacent imports (sorting looks at the case of
    # the first letter, at underscores, at digit runs, at raw identifiers)
    shapes = ["snake", "Camel", "UPPER", "_snake", "_Camel", "_UPPER", "_1", "r#type", "x9", "x10",
              "X_1", "__d", "Zz", "zZ", "A1", "a01"]
    for k in range(len(shapes)):
        rot = shapes[k:] + shapes[:k]
        out.append((f"gen/name_uselist_{k}", "use ffi::{" + ", ".join(rot) + "};\n"))
        out.append((f"gen/name_useitems_{k}", "".join(f"use ffi::{x};\n" for x in rot[:8])))
        out.append((f"gen/name_usealias_{k}",
                    "".join(f"use {x} as q{i};\nuse {x};\nuse {x}::sub;\n"
                            for i, x in enumerate([y.replace("r#type", "r#snake") for y in rot[:4]]
                                                  + ["snake"]))))
    for t in ATTR_NAMES:
        for n in (1, 25, 49):
            a = "a" * n
            out.append((f"gen/name_attr_{t}_{n}",
                        f"#[{t}(display = \"text {{}} {{}}\", {a}, bbbbbbbb, cccccccc, dddddddd)]\nstruct S;\n"))
    return out


# one option at a time: every formatting option with its non-default values
OPTION_SWEEP = [
    ("indent_style", ["Visual"]), ("use_small_heuristics", ["Off", "Max"]), ("fn_call_width", [20]),
    ("attr_fn_like_width", [20]), ("struct_lit_width", [0, 40]), ("struct_variant_width", [0]),
    ("array_width", [20]), ("chain_width", [20]), ("single_line_if_else_max_width", [0]),
    ("single_line_let_else_max_width", [0]), ("wrap_comments", [True]),
    ("format_code_in_doc_comments", [True]), ("doc_comment_code_block_width", [40]),
    ("comment_width", [40]), ("normalize_comments", [True]), ("normalize_doc_attributes", [True]),
    ("format_strings", [True]), ("format_macro_matchers", [True]), ("format_macro_bodies", [False]),
    ("hex_literal_case", ["Upper", "Lower"]),
    ("float_literal_trailing_zero", ["Always", "IfNoPostfix", "Never"]),
    ("empty_item_single_line", [False]), ("struct_lit_single_line", [False]),
    ("fn_single_line", [True]), ("where_single_line", [True]), ("imports_indent", ["Visual"]),
    ("imports_layout", ["Vertical", "Horizontal", "HorizontalVertical", "LimitedHorizontalVertical"]),
    ("imports_granularity", ["Crate", "Module", "Item", "One"]),
    ("group_imports", ["StdExternalCrate", "One"]), ("reorder_imports", [False]),
    ("reorder_modules", [False]), ("reorder_impl_items", [True]),
    ("type_punctuation_density", ["Compressed"]), ("space_before_colon", [True]),
    ("space_after_colon", [False]), ("spaces_around_ranges", [True]), ("binop_separator", ["Back"]),
    ("remove_nested_parens", [False]), ("combine_control_expr", [False]),
    ("overflow_delimited_expr", [True]), ("struct_field_align_threshold", [20]),
    ("enum_discrim_align_threshold", [20]), ("match_arm_blocks", [False]),
    ("match_arm_leading_pipes", ["Always", "Preserve"]), ("match_arm_indent", [False]),
    ("force_multiline_blocks", [True]), ("fn_params_layout", ["Compressed", "Vertical"]),
    ("brace_style", ["AlwaysNextLine", "PreferSameLine"]),
    ("control_brace_style", ["ClosingNextLine", "AlwaysNextLine"]), ("trailing_semicolon", [False]),
    ("trailing_comma", ["Always", "Never"]), ("match_block_trailing_comma", [True]),
    ("blank_lines_upper_bound", [0, 3]), ("blank_lines_lower_bound", [1]),
    ("inline_attribute_width", [40]), ("merge_derives", [False]), ("use_try_shorthand", [True]),
    ("use_field_init_shorthand", [True]), ("force_explicit_abi", [False]),
    ("condense_wildcard_suffixes", [True]), ("hard_tabs", [True]), ("tab_spaces", [2, 8]),
]
# options whose purpose is to change tokens (C01 judges them with its own rules / not at all)
TOKEN_CHANGING = {"use_try_shorthand", "condense_wildcard_suffixes", "merge_derives",
                  "normalize_doc_attributes",
                  "force_explicit_abi", "use_field_init_shorthand", "imports_granularity",
                  "normalize_comments", "wrap_comments", "format_strings", "reorder_impl_items",
                  "format_code_in_doc_comments"}


def option_points(tier, seed, per_quick=4, per_thorough=30):
    """One option at a time: -> list of (pid, name, text, opts).  The files of a pair
    (option, value) are the first N in a ranking by a hash of (option, value, file); the quick
    list is a prefix of the thorough one."""
    files = [f for f in corpus() if len(f[1]) < 30000]
    out = []
    for opt, vals in OPTION_SWEEP:
        for val in vals:
            ranked = sorted(files, key=lambda f: core.fnv(f"{opt}={val}:{f[0]}".encode()))
            n = per_thorough if tier == "thorough" else per_quick
            for k, (name, text) in enumerate(ranked[:per_thorough]):
                if k >= n and not (tier != "thorough" and
                                   core.fnv(f"{seed}:{opt}:{name}".encode()) % 23 == 0):
                    continue
                se = STYLE_EDITIONS[core.fnv((opt + name).encode()) % 3]
                v = val
                out.append((f"{name}@w=100,se={se},opt.{opt}={val}", name, text,
                            {"max_width": 100, "style_edition": se, opt: v}))
    return out


# values that only make sense next to another option (inverted bounds, a page that is barely usable)
PAIR_EXTRA = [("blank_lines_lower_bound", [2, 3]), ("blank_lines_upper_bound", [1, 2]),
              ("tab_spaces", [1, 4]), ("max_width", [20, 30, 200]), ("comment_width", [10, 200]),
              ("doc_comment_code_block_width", [10]), ("inline_attribute_width", [200]),
              ("short_array_element_width_threshold", [0, 100])]


def option_pair_points(tier, seed, quick=250):
    """Two options at a time: every pair of (option, value) points of OPTION_SWEEP + PAIR_EXTRA
    with different option names, each on one corpus file chosen by a hash of the pair.  The
    thorough tier takes every pair; quick takes the pairs among the PAIR_EXTRA options plus a
    hash-ranked prefix.  -> list of (pid, name, text, opts)"""
    files = [f for f in corpus() if len(f[1]) < 8000]
    single = [(o, v) for o, vals in OPTION_SWEEP + PAIR_EXTRA for v in vals]
    extra = {o for o, _ in PAIR_EXTRA}
    pairs = []
    for i, (o1, v1) in enumerate(single):
        for (o2, v2) in single[i + 1:]:
            if o1 != o2:
                pairs.append(((o1, v1), (o2, v2)))
    pairs.sort(key=lambda p: core.fnv(repr(p).encode()))
    out = []
    for k, ((o1, v1), (o2, v2)) in enumerate(pairs):
        if tier != "thorough" and k >= quick and not (o1 in extra and o2 in extra):
            continue
        h = core.fnv(f"{o1}={v1},{o2}={v2}".encode())
        name, text = files[h % len(files)]
        se = STYLE_EDITIONS[(h // 7) % 3]
        opts = {"max_width": 100, "style_edition": se}
        opts[o1] = v1
        opts[o2] = v2
        out.append((f"{name}@se={se},opt.{o1}={v1},opt.{o2}={v2}", name, text, opts))
    return out


def dirty(text, seed):
    """A token-preserving perturbation that ADDS what a formatter must remove: blanks at the end
    of lines and on blank lines (outside string / comment context, as in relayout)."""
    rng = random.Random(seed)
    out = []
    in_block = False
    for ln in text.split("\n"):
        s = ln
        stripped = s.strip()
        risky = in_block or '"' in s or "/*" in s or "*/" in s or stripped.startswith("//") \
            or "r#" in s or "\\" in s or "//" in s
        if "/*" in s and "*/" not in s[s.index("/*"):]:
            in_block = True
        elif "*/" in s:
            in_block = False
        if not risky:
            if not stripped:
                s = rng.choice(["", "  ", "\t", "    "])
            elif rng.random() < 0.2:
                s = s + rng.choice([" ", "  ", "\t"])
        out.append(s)
    return "\n".join(out)


def family_instances(key, sources=None, per_family=1):
    """`per_family` instances (chosen by a hash of `key` and the family; 0 = all) of every
    template family of the generated sources.  -> list of (name, text)"""
    gens = sources if sources is not None else (boundary_sources() + macro_sources())
    fams = {}
    for g in gens:
        fams.setdefault(g[0].rsplit("_", 1)[0], []).append(g)
    out = []
    for fam, gs in sorted(fams.items()):
        if per_family == 0:
            out += gs
        else:
            h = core.fnv(f"{key}:{fam}".encode())
            out += [gs[(h + k * 7) % len(gs)] for k in range(min(per_family, len(gs)))]
    return out
