"""C01 — formatting preserves the meaning of the program.

spec/TokenLedger.tla: the closed set of style normalisations as guarded rules over
single-token edits; an execution is accepted iff the output parses, every edit between the
AST-pretty-printed token streams of input and output (rustc_parse + rustc_ast_pretty +
rustc_lexer, in the harness) is an instance of a rule, and delimiter edits balance.
Evaluated by TLC on U-core points (and token-preserving re-layouts of them).
"""
import json
import random

from . import core, ucore, universe
from .c02 import good
from .core import Scratch, ToolError, Verdict, log

SKIP_VECTORS = {"v7"}      # the opt-in shorthand / literal-spelling rewrites: not ruled yet


# families the token projection cannot judge: rustc's pretty printer glues a float bound that ends
# in `.` to the dots of a range pattern (`1. ..=2.` is printed `1...=2.`), so the INPUT side of
# the ledger is already wrong; C02 (OutputAccepted) watches these texts instead
UNPROJECTABLE = ("gen/floatrange_",)


def jobs_for(tier, seed):
    pts = universe.points(tier, seed, files_quick=900, narrow=True)
    for i, (name, text) in enumerate(universe.boundary_sources()):
        if name.startswith(UNPROJECTABLE):
            continue
        for w in ((30, 60, 100, 125) if tier == "quick" else (23, 30, 37, 40, 60, 77, 80, 100, 105, 120, 125, 137, 199)):
            se = universe.STYLE_EDITIONS[(core.fnv(name.encode()) + w) % 3]
            pts.append((f"{name}@w={w},se={se},v0", name, text,
                        {"max_width": w, "style_edition": se}))
    jobs = []
    pts += [p for p in universe.option_points(tier, seed)
            if p[0].split(",opt.")[1].split("=")[0] not in universe.TOKEN_CHANGING]
    # every (token-preserving) option value x instances of every template family
    for opt, vals in universe.OPTION_SWEEP:
        if opt in universe.TOKEN_CHANGING:
            continue
        for val in vals:
            for (name, text) in universe.family_instances(f"{opt}={val}", universe.boundary_sources(),
                                                           per_family=1 if tier == "quick" else 4):
                if name.startswith(UNPROJECTABLE):
                    continue
                se = universe.STYLE_EDITIONS[core.fnv(f"{opt}{name}".encode()) % 3]
                pts.append((f"{name}@w=100,se={se},opt.{opt}={val}", name, text,
                            {"max_width": 100, "style_edition": se, opt: val}))
    for k, (pid, name, text, opts) in enumerate(pts):
        vk = pid.rsplit(",", 1)[-1]
        if vk in SKIP_VECTORS:
            continue
        o = dict(opts)
        o.pop("reorder_impl_items", None)
        o["edition"] = "2018" if core.fnv(pid.encode()) % 2 else "2015"
        o["merge_derives"] = False          # merging derives is C10/C11 territory (reordering)
        jobs.append({"id": len(jobs), "src": text, "opts": o, "want": ["ledger"], "_pid": pid})
        hp = core.fnv(pid.encode())      # a function of the point, not of its rank in this run
        if tier == "thorough" or hp % 3 == 0:
            jobs.append({"id": len(jobs), "src": text, "opts": o, "want": ["ledger"],
                         "relayout": 1 + hp % 7, "_pid": pid + ":relayout"})
    return jobs


TRY_OPERANDS = ["x + y", "x as u8", "|| x", "&x", "-x", "!x", "*x", "a..b", "x = y", "move || x",
                "foo(1)", "a.b().c", "a[0]", "(x + y)", "S { a: 1 }", "mac!(x)", "x", "[1, 2]"]


def try_shorthand_probe(v, sc):
    """use_try_shorthand: `try!(E)` may become `E?` only where that is the same expression --
    `?` binds more tightly than every prefix and binary operator.  The token ledger leaves the
    option to this probe: for every operand shape the output either keeps the macro or is the
    postfix form of an operand that needs no parentheses."""
    src = "fn f() -> Result<u8, E> {\n" + "".join(
        f"    let v{k} = r#try!({e});\n" for k, e in enumerate(TRY_OPERANDS)) + "    Ok(0)\n}\n"
    o = ucore.run_jobs([{"id": 0, "src": src, "opts": {"use_try_shorthand": True}, "want": ["out"]}],
                       sc)[0]
    out = o.get("out") or ""
    safe = {"foo(1)", "a.b().c", "a[0]", "(x + y)", "S { a: 1 }", "mac!(x)", "x", "[1, 2]"}
    n = 0
    for k, e in enumerate(TRY_OPERANDS):
        ln = next((x.strip() for x in out.split("\n") if x.strip().startswith(f"let v{k} =")), None)
        n += 1
        if ln is None:
            continue
        rhs = ln[len(f"let v{k} ="):].strip().rstrip(";")
        if rhs.endswith("?") and e not in safe and not (rhs.startswith("(") and rhs.endswith(")?")):
            v.violation(f"try-shorthand:{e}",
                        f"use_try_shorthand rewrote `try!({e})` to `{rhs}`: `?` applies to the last "
                        f"operand only, the program means something else", {"source": src, "out": out})
    return n


def run(tier, seed, replay=None):
    v = Verdict("C01", tier, seed)
    core.build(bins=False)
    jobs = jobs_for(tier, seed)
    with Scratch("c01") as sc:
        n_try = try_shorthand_probe(v, sc)
        res = ucore.run_jobs([{k: j[k] for k in j if not k.startswith("_")} for j in jobs], sc,
                             timeout=40)
        recs, meta = [], []
        identical = unusable = 0
        for j, o in zip(jobs, res):
            lg = o.get("ledger") if o else None
            if not good(o) or not lg or not lg.get("parsed_in") or o.get("out_len", 0) == 0:
                unusable += 1
                continue
            if lg.get("parsed_out") and not lg["edits"]:
                identical += 1
                continue
            if len(lg["edits"]) > 4000 and not lg.get("too_big"):
                unusable += 1          # an alignment this long says nothing edit by edit
                continue
            recs.append({"parsed_in": True, "parsed_out": bool(lg.get("parsed_out")),
                         "edits": lg["edits"]})
            meta.append((j, o, lg))
        fails, ostates = core.eval_report("TokenLedger", "TokenLedger.cfg", recs, scratch=sc,
                                          chunk=1500)
    for idx, f in fails:
        j, o, lg = meta[idx]
        k = f.get("first", 0)
        e = lg["edits"][k - 1] if k else None
        desc = f"{e['op']} {e['tok']!r} after {e['prev']!r} before {e['next']!r}" if e else \
            ",".join(f["fails"])
        sig = f"{e['op']}:{e['tok'][:30]}:{e['prev'][:20]}:{e['next'][:20]}" if e else "-"
        v.violation(f"{','.join(sorted(f['fails']))}:{j['_pid']}:{sig}",
                    f"{f['fails']} at {j['_pid']}: {desc}",
                    {"point": j["_pid"], "opts": j["opts"], "relayout": j.get("relayout"),
                     "edits": lg["edits"][:40], "first_unexplained": e})
    for (j, o, lg) in meta[:2]:
        v.sample({"point": j["_pid"], "edits": [[e["op"], e["tok"]] for e in lg["edits"][:6]]})
    cov = {"evaluations": len(jobs),
           "distinct_nontrivial": len({m[0]["_pid"] for m in meta}),
           "rule": "U-core points (without the opt-in shorthand vector v7) and lexer-level "
                   "re-layouts; distinct_nontrivial = distinct points whose AST-pretty-printed token "
                   "stream differs between input and output (the ledger has at least one edit)",
           "token_identical_runs": identical, "runs_with_edits": len(recs),
           "unusable_runs": unusable, "obs_states": ostates, "samples": v.samples}
    return v.finish("exploration", cov, [
        "semantic equality is approximated by equality of AST-pretty-printed token streams up to "
        "the ruled edits; imports / extern crates / mod declarations are left to C10 and C11",
        "string literals are compared after removing line continuations; doc comments after "
        "collapsing white space"])
