"""C03 — comments are never silently dropped.

spec/CommentsObs.tla (Reappears, NotMultiplied, PlantedOnce, PlantedSameText, WordsKept)
evaluated by TLC on runs of the real library.  The driver asks rustc's own parser for the
positions the property names (harness projection `slots`), plants marker comments there --
position class x comment style rotate over the points -- and formats the result at the
point's width / style edition / option vector; the comments the corpus files already carry
at those positions are checked too.
"""
import json
import random
import re

from . import core, ucore, universe
from .core import Scratch, ToolError, Verdict, log

# comment styles: (tag, text with {m} = marker, is line comment)
STYLES = [
    ("line", "// {m} note", True),
    ("block", "/* {m} note */", False),
    ("banner", "//// {m} note", True),
    ("bblock", "/*** {m} note ***/", False),
    ("multi", "/* {m} alpha\n * beta gamma\n */", False),
    ("custom", "//- {m} note", True),
    ("tight", "/*{m}*/", False),
    ("uni", "// {m} gr\u00fc\u00dfe \u00b5m \u4e16\u754c note", True),
]
# only under wrap_comments: a two-line comment whose first line has to be wrapped and whose second
# line starts with a token that cannot be broken (a digest, a long path)
WRAP2 = ("wrap2", "// {m} alpha beta gamma delta epsilon zeta eta theta iota kappa lambda mu nu xi omicron pi "
         "rho sigma tau upsilon phi chi psi omega\n// 0123456789abcdef0123456789abcdef0123456789abcdef"
         "0123456789abcdef0123456789abcdef0123456789abcdef and a tail of words", True)
WRAP3 = ("wrap3", "// {m} alpha beta gamma delta epsilon zeta eta theta iota kappa lambda mu nu xi omicron pi "
         "rho sigma tau upsilon phi chi psi omega\n// some_crate::some_module::another_module::"
         "yet_another_module::and_one_more_module::SomeVeryLongTypeNameIndeed tail words", True)
CLASSES = ["items", "stmts", "fields", "variants", "arms", "params", "args", "instmt"]
MARK = re.compile(r"cq\d+x")
WORD = re.compile(r"[A-Za-z0-9_]+")


def payload(tok):
    if tok.startswith("//"):
        lines = [tok[2:]]
    else:
        body = tok[2:-2] if tok.endswith("*/") and len(tok) >= 4 else tok[2:]
        lines = body.split("\n")
    out = []
    for ln in lines:
        t = ln.strip().lstrip("*").strip()
        if t:
            out.append(t)
    return "\n".join(out)


def words(tok):
    return WORD.findall(payload(tok))


def plant(text, slots, hp, per_run):
    """Insert up to per_run marker comments; returns (new text, planted list)."""
    b = text.encode()
    by = {}
    for s in slots:
        by.setdefault((s["cls"], s["how"]), []).append(s["off"])
    keys = sorted(by)
    if not keys:
        return text, []
    rng = random.Random(hp)
    rng.shuffle(keys)
    chosen = []
    used = set()
    for k in keys[:per_run]:
        off = rng.choice(by[k])
        if off in used:
            continue
        used.add(off)
        chosen.append((off, k))
    chosen.sort()
    out = []
    last = 0
    planted = []
    for n, (off, (cls, how)) in enumerate(chosen):
        st = STYLES[(hp + n * 3 + len(cls)) % len(STYLES)]
        m = f"cq{n}x"
        c = st[1].format(m=m)
        out.append(b[last:off])
        if how == "eol":
            out.append((" " + c + "\n").encode())
        elif st[2]:
            out.append((c + "\n").encode())
        else:
            out.append((c + " ").encode())
        last = off
        planted.append({"m": m, "cls": cls, "how": how, "style": st[0], "text": c})
    out.append(b[last:])
    return b"".join(out).decode(), planted


DOC_SHAPED = {"TripleSlash", "Doc", "DoubleBullet", "Exclamation"}


def comment_kind(v, tier):
    """spec/CommentKind.tla: TLC checks Agreement on the transcription and prints one prediction
    per opener; every opener is replayed into the real rustc_lexer and the real comment_style."""
    import subprocess
    res = core.tlc("CommentKind", "CommentKind.cfg" if tier == "quick" else "CommentKind_thorough.cfg",
                   workers=2, timeout=600)
    model_bad = None
    if not res.ok:
        if res.violation and "Agreement" in res.violation:
            model_bad = res.violation
        else:
            raise ToolError(f"CommentKind: {res.violation}")
    preds = core.printed_json(res, "CK")
    texts = []
    for p in preds:
        t = "".join(p["s"])
        texts.append(t + (" x\n" if t.startswith("//") else " x */"))
    r = subprocess.run([core.harness_bin("rfv-unit"), "commentkind"], input=json.dumps(texts),
                       capture_output=True, text=True, env=core.run_env(), timeout=300)
    if r.returncode != 0:
        raise ToolError(f"rfv-unit commentkind: {r.stderr[-800:]}")
    real = json.loads(r.stdout)
    conform = 0
    for p, t, o in zip(preds, texts, real):
        style = o["style1"] if p["n"] else o["style0"]
        if not o["comment"] or o["lexdoc"] != p["lexdoc"] or style != p["style"]:
            v.drift += 1
            log(f"  DRIFT CommentKind {t!r} n={p['n']}: model ({p['lexdoc']}, {p['style']}) real "
                f"({o['lexdoc']}, {style})")
        else:
            conform += 1
        if o["comment"] and o["lexdoc"] != (style in DOC_SHAPED):
            v.violation(f"CommentKind:{''.join(p['s'])}:n={p['n']}",
                        f"comment_style classifies {t!r} as {style} (normalize_comments={p['n']}) but "
                        f"the compiler reads it as {'a doc' if o['lexdoc'] else 'an ordinary'} comment",
                        {"text": t, "normalize_comments": p["n"], "real": o})
    if model_bad and not v.violations:
        v.violation("CommentKind:model", "CommentKind.tla Agreement violated: " + model_bad[:300],
                    {"tlc": model_bad})
    return {"openers": len(preds), "conform": conform, "model_states": res.distinct}


def run(tier, seed, replay=None):
    v = Verdict("C03", tier, seed)
    core.build(bins=False)
    ck = comment_kind(v, tier)
    pts = universe.points(tier, seed, files_quick=400, narrow=True)
    pts += universe.option_points(tier, seed)
    files = {}
    for (pid, name, text, opts) in pts:
        files.setdefault(name, text)
    names = sorted(files)
    with Scratch("c03") as sc:
        sl = ucore.run_jobs([{"id": i, "src": files[n], "opts": {"disable_all_formatting": True},
                              "want": ["slots"]} for i, n in enumerate(names)], sc, timeout=30)
        slots = {n: (r.get("slots") or None) for n, r in zip(names, sl)}
        jobs = []
        for (pid, name, text, opts) in pts:
            s = slots.get(name)
            if not s:
                continue
            hp = core.fnv(pid.encode())
            if opts.get("wrap_comments") and opts.get("normalize_comments"):
                # the comment-rewriting vector: both options, or one of them alone
                opts = dict(opts)
                sub = ("both", "wrap", "norm")[hp % 3]
                if sub == "wrap":
                    del opts["normalize_comments"]
                elif sub == "norm":
                    del opts["wrap_comments"]
                pid = pid + "/" + sub
            new, planted = plant(text, s["slots"], hp, 6)
            jobs.append({"id": len(jobs), "src": new, "opts": opts, "want": ["lex"],
                         "_pid": pid, "_planted": planted, "_name": name,
                         "_rw": bool(opts.get("wrap_comments") or opts.get("normalize_comments"))})
        # small generated sources (width-boundary sweep + macro-call statements): ONE comment
        # per run, at every slot, every style
        gens = universe.boundary_sources() + universe.macro_sources()
        gsl = ucore.run_jobs([{"id": i, "src": t, "opts": {"disable_all_formatting": True},
                               "want": ["slots"]} for i, (n, t) in enumerate(gens)], sc, timeout=30)
        for (gname, gtext), r in zip(gens, gsl):
            ss = (r.get("slots") or {}).get("slots") or []
            tb = gtext.encode()
            for si, sl in enumerate(ss):
                for sti, st in enumerate(STYLES):
                    for w in (60, 100):
                        pid = f"{gname}@w={w}:slot{si}:{st[0]}"
                        hp = core.fnv(pid.encode())
                        if tier != "thorough" and hp % 8 != seed % 8 and (si + sti) % 7:
                            continue
                        if sl["how"] == "eol" and not st[2] and st[0] != "block":
                            continue
                        c = st[1].format(m="cq0x")
                        if sl["how"] == "eol":
                            ins = " " + c + "\n"
                        elif st[2]:
                            ins = c + "\n"
                        else:
                            ins = c + " "
                        new = (tb[:sl["off"]] + ins.encode() + tb[sl["off"]:]).decode()
                        se = universe.STYLE_EDITIONS[hp % 3]
                        jobs.append({"id": len(jobs), "src": new,
                                     "opts": {"max_width": w, "style_edition": se},
                                     "want": ["lex"], "_pid": pid, "_name": None, "_rw": False,
                                     "_planted": [{"m": "cq0x", "cls": sl["cls"], "how": sl["how"],
                                                   "style": st[0], "text": c}]})
        gen_slots = [(g, (r.get("slots") or {}).get("slots") or []) for g, r in zip(gens, gsl)]
        for opt, vals in universe.OPTION_SWEEP:
            for val in vals:
                # one instance (padding chosen by a hash) of EVERY template family under every
                # option value
                fams = {}
                for g in gen_slots:
                    fams.setdefault(g[0][0].rsplit("_", 1)[0], []).append(g)
                chosen = []
                for fam, gs in sorted(fams.items()):
                    h = core.fnv(f"{opt}={val}:{fam}".encode())
                    chosen.append(gs[h % len(gs)])
                for (gname, gtext), ss in chosen:
                    tb = gtext.encode()
                    for si, sl in enumerate(ss):
                        hp = core.fnv(f"{opt}={val}:{gname}:{si}".encode())
                        more = (WRAP2, WRAP3) if (opt == "wrap_comments" and sl["how"] != "eol"
                                                 and sl["cls"] in ("items", "stmts")) else ()
                        for st in (STYLES[hp % len(STYLES)], STYLES[-1]) + more:
                            if sl["how"] == "eol" and not st[2] and st[0] != "block":
                                continue
                            c = st[1].format(m="cq0x")
                            ins = (" " + c + "\n") if sl["how"] == "eol" else \
                                ((c + "\n") if st[2] else (c + " "))
                            new = (tb[:sl["off"]] + ins.encode() + tb[sl["off"]:]).decode()
                            o = {"max_width": 100, "style_edition": universe.STYLE_EDITIONS[hp % 3],
                                 opt: val}
                            jobs.append({"id": len(jobs), "src": new, "opts": o, "want": ["lex"],
                                         "_pid": f"{gname}@opt.{opt}={val}:slot{si}:{st[0]}",
                                         "_name": None,
                                         "_rw": opt in ("wrap_comments", "normalize_comments"),
                                         "_planted": [{"m": "cq0x", "cls": sl["cls"],
                                                       "how": sl["how"], "style": st[0],
                                                       "text": c}]})
        res = ucore.run_jobs([{k: j[k] for k in j if not k.startswith("_")} for j in jobs], sc,
                             timeout=30)
        recs, meta = [], []
        skipped = 0
        cells = {}
        for j, o in zip(jobs, res):
            if not (o.get("ok") and not o.get("panic") and not o.get("timeout") and not o.get("died")
                    and not o.get("session", {}).get("parsing")) or not o.get("out_len"):
                # (an empty capture: a file that opts out as a whole is echoed to the process's
                # stdout, not to the session's writer -- nothing to observe in-process)
                skipped += 1
                continue
            cin = o["lex_in"]["comments"]
            cout = o["lex_out"]["comments"]
            pin = [payload(c) for c in cin]
            pout = [payload(c) for c in cout]
            planted = [p for p in j["_planted"]
                       if sum(1 for c in cin if p["m"] in MARK.findall(c)) == 1]
            rec = {"rw": j["_rw"], "pl": [], "mk": [], "mkw": []}
            if not j["_rw"]:
                for p in planted:
                    hits = [q for c, q in zip(cout, pout) for _ in
                            [x for x in MARK.findall(c) if x == p["m"]]]
                    rec["mk"].append({"p": payload(p["text"]), "hits": hits})
                # the comments the file already carries at in-scope positions
                orig = slots[j["_name"]]["comments"] if j["_name"] else []
                a = {}
                for c in orig:
                    if c.get("cls"):
                        q = payload(c["text"])
                        if q and not MARK.search(q):
                            a[q] = a.get(q, 0) + 1
                for q, n in sorted(a.items()):
                    rec["pl"].append([n, pin.count(q), pout.count(q)])
                rec["_pl_keys"] = sorted(a)
            else:
                gw = [w for c in cout for w in words(c)]
                for p in planted:
                    w = words(p["text"])
                    wins = [gw[k:k + len(w)] for k, x in enumerate(gw) if x == p["m"]]
                    rec["mkw"].append({"w": w, "wins": wins})
            for p in planted:
                cells[(p["cls"], p["how"], p["style"])] = cells.get((p["cls"], p["how"], p["style"]), 0) + 1
            recs.append(rec)
            meta.append((j, o, planted))
        fails, ostates = core.eval_report(
            "CommentsObs", "CommentsObs.cfg",
            [{k: r[k] for k in r if not k.startswith("_")} for r in recs], scratch=sc, chunk=4000)
    for idx, f in fails:
        j, o, planted = meta[idx]
        rec = recs[idx]
        for inv in f["fails"]:
            if inv in ("PlantedOnce", "PlantedSameText"):
                for p, mk in zip(planted, rec["mk"]):
                    bad = (len(mk["hits"]) != 1) if inv == "PlantedOnce" else \
                        any(h != mk["p"] for h in mk["hits"])
                    if bad:
                        v.violation(f"{inv}:{j['_pid']}:{p['cls']}/{p['how']}/{p['style']}",
                                    f"{inv} at {j['_pid']}: planted {p['style']} comment {p['text']!r} "
                                    f"({p['cls']}, {p['how']}) -> output mentions: {mk['hits']!r}",
                                    {"point": j["_pid"], "opts": j["opts"], "planted": p,
                                     "source": j["src"][:8000]})
            elif inv == "WordsKept":
                for p, mk in zip(planted, rec["mkw"]):
                    if len(mk["wins"]) != 1 or mk["wins"][0] != mk["w"]:
                        v.violation(f"{inv}:{j['_pid']}:{p['cls']}/{p['how']}/{p['style']}",
                                    f"{inv} at {j['_pid']}: planted {p['text']!r} ({p['cls']}, "
                                    f"{p['how']}) -> windows {mk['wins']!r}",
                                    {"point": j["_pid"], "opts": j["opts"], "planted": p,
                                     "source": j["src"][:8000]})
            else:
                for q, (a, b, c) in zip(rec["_pl_keys"], rec["pl"]):
                    if (inv == "Reappears" and c < a) or (inv == "NotMultiplied" and c > b):
                        v.violation(f"{inv}:{j['_pid']}:{core.fnv(q.encode())}",
                                    f"{inv} at {j['_pid']}: comment {q[:80]!r} in-scope {a}, input {b}, "
                                    f"output {c}",
                                    {"point": j["_pid"], "opts": j["opts"], "payload": q,
                                     "source": j["src"][:8000]})
    for (j, o, planted) in meta[:2]:
        v.sample({"point": j["_pid"], "planted": [(p["cls"], p["how"], p["style"]) for p in planted]})
    cov = {"evaluations": len(jobs), "distinct_nontrivial": len(cells),
           "rule": "U-core points (narrow widths included); per point up to 6 marker comments planted "
                   "at AST-derived slots, one per (position class, how) pair chosen by a hash of the "
                   "point, comment style rotating over 7 styles; distinct_nontrivial = distinct "
                   "(class, how, style) cells exercised; plus the in-scope comments the corpus files "
                   "carry",
           "cells": {"/".join(k): n for k, n in sorted(cells.items())},
           "planted": sum(len(m[2]) for m in meta), "points_skipped_unparsable": skipped,
           "files_without_slots": sum(1 for n in names if not slots[n]),
           "comment_kind": ck, "model_states": ck["model_states"],
           "traces_replayed_into_impl": ck["openers"],
           "obs_states": ostates, "samples": v.samples}
    return v.finish("exploration", cov, [
        "scope of a comment = position class computed from rustc_parse's AST of the same text",
        "a point is used iff the planted source parses and the run reports no parse error"])
