"""C17 — file_lines confines changes to the selected code.

spec/FileLinesCore.tla + FileLines.tla  range algebra vs the set-of-lines meaning (TLC,
                                        every selection of <= 3 ranges over 0..4)
spec/FileLinesObs.tla                   the clauses evaluated by TLC on the real FileLines
                                        (export hook + JSON parser) and on runs of the real
                                        binary with --file-lines (path and stdin)
"""
import itertools
import json
import random
import shutil
import subprocess
from concurrent.futures import ThreadPoolExecutor

from . import core
from .core import Scratch, ToolError, Verdict, log, tlc

LONG = "a" * 110
ITEMS = {
    "A": ["fn  a( ){}"],
    "B": ["struct  S{x:u32,", " y:u32}"],
    "C": ["fn  c( ){", "let  x=1;", "let  y = 2 ;", "foo( x,y );", "}"],
    "D": ["const  K:u32=1;"],
    "E": ["fn  e( ){", f"    let  z = {LONG};", "}"],
    # reorderable runs: imports, an import under an attribute, an extern crate
    "U": ["use  z::b ;"],
    "W": ["use  a::c ;"],
    "V": ["use  y::d ;"],
    "X": ["extern  crate  q ;"],
    # an item that carries a scoped skip list, and one that uses the macro it names: the list ends
    # with its item, selected or not
    "S": ["fn  s( ){ }"],
    "Q": ["fn  q( ){ qq!( 3,4 ) ; }"],
    # an item whose formatting REMOVES lines, and an item written with leading blanks
    "H": ["fn  h(", ")", "{", "}"],
    "I": ["  struct  I   ;"],
    # a line of a string literal that ends in blanks (reported only under error_on_unformatted,
    # and only when selected)
    "T": ["const  T:&str=\"x   ", "y\" ;"],
}
# lines written before the item that are not part of its own span (outer attributes)
PRE = {"V": ["#[cfg(unix)]"], "S": ["#[rustfmt::skip::macros(qq)]"]}
SEQS = [["A", "C", "D"], ["E", "B", "C"], ["C"], ["A", "B", "C", "D"], ["D", "C", "A"], ["B", "A"],
        ["U", "W", "A"], ["V", "U", "W"], ["W", "V", "D"], ["X", "U", "W"], ["S", "Q"], ["A", "S", "Q", "D"],
        ["H", "I", "A"], ["A", "H", "I", "D"], ["T"], ["T", "A"]]


def build_source(seq, gap):
    lines, spans = [], []
    for k, it in enumerate(seq):
        if k:
            lines += [""] * gap
        lines += PRE.get(it, [])
        lo = len(lines) + 1
        lines += ITEMS[it]
        spans.append((it, lo, len(lines)))
    return "\n".join(lines) + "\n", spans


def selections(n, rng, tier):
    sels = [[], [[1, n]], [[n + 3, n + 9]], [[2, 1]]]
    singles = [[a, b] for a in range(1, n + 1) for b in range(a, n + 1)]
    rng.shuffle(singles)
    sels += [[s] for s in singles[: (14 if tier == "quick" else 60)]]
    for _ in range(10 if tier == "quick" else 60):
        a, b = sorted(rng.sample(range(1, n + 2), 2))
        c, d = sorted(rng.sample(range(1, n + 2), 2))
        sels.append([[a, b], [c, d]])
    # chains of three: adjacent, overlapping, with an empty one in between
    for _ in range(8 if tier == "quick" else 40):
        k, m = sorted(rng.sample(range(1, n), 2)) if n > 2 else (1, 1)
        sels.append([[1, k], [k + 1, m], [m + 1, n]])
        sels.append([[1, m], [k, n], [m, m + 1]])
        sels.append([[m + 1, n], [1, k], [k + 1, m]])
        sels.append([[1, k], [k + 1, k], [k + 1, n]])
    return sels


def run_one(t):
    idx, base, rustfmt, src, spans, sel, mode, singles, extra = t
    d = base / f"s{idx}"
    d.mkdir()
    (d / "lib.rs").write_text("mod other;\n" + src if mode == "path" else src)
    other = "fn  other( ){}\n"
    (d / "other.rs").write_text(other)
    root_src = "mod body;\nfn  root_item( ){}\n\n\n\nfn  root_two( ){}\n"
    if mode == "child":
        # the selected file is an out-of-line module of the run, not its root: lib.rs (never
        # selected) declares it, and comes first in the source map
        (d / "lib.rs").write_text(root_src)
        (d / "body.rs").write_text(src)
    shift = 1 if mode == "path" else 0
    fname = str((d / "lib.rs").resolve()) if mode == "path" else "stdin"
    if mode == "child":
        fname = str((d / "body.rs").resolve())
    # other spellings of the same file in the selection: a `..` component, a symlinked directory
    spell = extra[0] if extra and extra[0] in ("dotdot", "symlink") else "canon"
    if spell != "canon":
        extra = extra[1:]
    if mode == "path" and spell == "dotdot":
        (d / "sub").mkdir()
        fname = str(d.resolve() / "sub" / ".." / "lib.rs")
    if mode == "path" and spell == "symlink":
        link = d.parent / (d.name + "-link")
        link.symlink_to(d.resolve(), target_is_directory=True)
        fname = str(link / "lib.rs")
    js = json.dumps([{"file": fname, "range": [a + shift, b + shift]} for a, b in sel])
    env = core.run_env({"HOME": str(d)})
    common = ["--unstable-features", "--config", "error_on_line_overflow=true", "--file-lines", js] \
        + extra
    if "const  T:&str" in src:
        common += ["--config", "error_on_unformatted=true"]
    if mode == "child":
        r = subprocess.run([rustfmt] + common + ["--emit", "stdout", str(d / "lib.rs")],
                           cwd=d, env=env, capture_output=True, text=True, timeout=60)
        parts = {}
        for chunk in r.stdout.split(str(d.resolve()) + "/"):
            for nm in ("lib", "body"):
                if chunk.startswith(nm + ".rs:\n\n"):
                    parts[nm] = chunk[len(nm) + 6:]
        out_body = parts.get("body", "")
        r2 = subprocess.run([rustfmt] + common + [str(d / "lib.rs")], cwd=d, env=env,
                            capture_output=True, text=True, timeout=60)
        untouched = (d / "lib.rs").read_text() == root_src and parts.get("lib", root_src) == root_src
        stderr = r.stderr
    elif mode == "path":
        r = subprocess.run([rustfmt] + common + ["--emit", "stdout", str(d / "lib.rs")],
                           cwd=d, env=env, capture_output=True, text=True, timeout=60)
        # "<path>:\n\n<text>" per file
        parts = {}
        cur = None
        for chunk in r.stdout.split(str(d.resolve()) + "/"):
            if chunk.startswith("lib.rs:\n\n"):
                parts["lib"] = chunk[len("lib.rs:\n\n"):]
            elif chunk.startswith("other.rs:\n\n"):
                parts["other"] = chunk[len("other.rs:\n\n"):]
        out = parts.get("lib", "")
        out_body = out[len("mod other;\n"):] if out.startswith("mod other;\n") else out
        # files mode: the file that is not named in the selection must stay untouched
        r2 = subprocess.run([rustfmt] + common + [str(d / "lib.rs")], cwd=d, env=env,
                            capture_output=True, text=True, timeout=60)
        untouched = (d / "other.rs").read_text() == other and parts.get("other", other) == other
        stderr = r.stderr
        # the `mod other;` line is never selected: it must survive verbatim
        untouched = untouched and out.startswith("mod other;\n")
    else:
        r = subprocess.run([rustfmt] + common, cwd=d, env=env, input=src, capture_output=True,
                           text=True, timeout=60)
        out_body, untouched, stderr = r.stdout, True, r.stderr
    shutil.rmtree(d, ignore_errors=True)
    if (d.parent / (d.name + "-link")).is_symlink():
        (d.parent / (d.name + "-link")).unlink()
    items = []
    out_lines = out_body.split("\n")

    def occurs(block):
        """DESIGN.md F.6: trim(text) occurs in the output, preceded on its line by blanks only."""
        text = "\n".join(block).strip()
        start = 0
        while True:
            i = out_body.find(text, start)
            if i < 0:
                return False
            bol = out_body.rfind("\n", 0, i) + 1
            end = i + len(text)
            eol = out_body.find("\n", end)
            eol = len(out_body) if eol < 0 else eol
            if out_body[bol:i].strip() == "" and out_body[end:eol].strip() == "":
                return True
            start = i + 1

    def occurs_exactly(block):
        """byte for byte: the source lines, with their own indentation, are consecutive lines of
        the output"""
        for k in range(len(out_lines) - len(block) + 1):
            if out_lines[k:k + len(block)] == block:
                return True
        return False
    for (it, lo, hi) in spans:
        srcl = ITEMS[it]
        fmt = singles[it]
        if it == "C":
            # judged statement by statement; the item as a whole only when fully selected
            items.append({"lo": lo, "hi": hi, "verbatim": occurs(srcl), "formatted": occurs(fmt),
                          "whole": False})
            for k, st in enumerate(srcl[1:-1]):
                items.append({"lo": lo + 1 + k, "hi": lo + 1 + k, "verbatim": occurs([st]),
                              "formatted": occurs([fmt[1 + k]]), "whole": True})
        else:
            items.append({"lo": lo, "hi": hi, "verbatim": occurs_exactly(srcl) if it == "I" else occurs(srcl),
                          "formatted": occurs(fmt), "whole": True})
    reports = []
    for ln in stderr.split("\n"):
        ln = ln.strip()
        if ln.startswith("-->") and ":" in ln:
            try:
                reports.append(int(ln.rsplit(":", 2)[-2]) - shift)
            except ValueError:
                pass
    return {"kind": "gate", "sel": sel, "items": items, "reports": reports,
            "other_untouched": untouched, "unchanged": out_body == src,
            "out": out_body, "stderr": stderr[:600], "exit": r.returncode}


def run(tier, seed, replay=None):
    v = Verdict("C17", tier, seed)
    rng = random.Random(seed)
    core.build()
    rustfmt = core.bin_path("rustfmt")
    res = tlc("FileLines", f"FileLines_{tier}.cfg", workers=8, timeout=2400)
    if not res.ok:
        v.violation("model", "FileLines.tla: " + (res.violation or "")[:400], {"tlc": res.raw[-2000:]})
    unit = core.harness_bin("rfv-unit")
    r = subprocess.run([unit, "filelines", "4" if tier == "quick" else "5", "3"],
                       env=core.run_env(), capture_output=True, text=True)
    if r.returncode != 0:
        raise ToolError("rfv-unit filelines failed: " + r.stderr[-2000:])
    arecs = [json.loads(x) for x in r.stdout.splitlines() if x.strip()]
    if tier == "quick":
        rng.shuffle(arecs)
        keep = [x for x in arecs if len(x["sel"]) == 3][:2500] + [x for x in arecs if len(x["sel"]) < 3]
        arecs = keep
    with Scratch("c17") as base:
        # formatted form of every item alone (what "formatted as without the restriction" means)
        singles = {}
        for it, lines in ITEMS.items():
            rr = subprocess.run([rustfmt, "--config", "error_on_line_overflow=false"],
                                input="\n".join(lines) + "\n", env=core.run_env(),
                                capture_output=True, text=True, cwd=base)
            singles[it] = rr.stdout.rstrip("\n").split("\n")
        jobs = []
        for seq in SEQS:
            for gap in (0, 1, 2):
                src, spans = build_source(seq, gap)
                n = src.count("\n")
                sels = selections(n, rng, tier)
                for k, sel in enumerate(sels):
                    mode = "path" if (k + gap) % 2 == 0 else "stdin"
                    jobs.append((len(jobs), base, rustfmt, src, spans, sel, mode, singles, []))
                    if k % 3 == 0:
                        jobs.append((len(jobs), base, rustfmt, src, spans, sel, "child", singles, []))
                    if mode == "path" and k % 5 == 0:
                        jobs.append((len(jobs), base, rustfmt, src, spans, sel, mode, singles,
                                     ["dotdot" if k % 10 == 0 else "symlink"]))
                    if any(x in "UWVX" for x in seq) and k % 2 == 0:
                        jobs.append((len(jobs), base, rustfmt, src, spans, sel, mode, singles,
                                     ["--config", "group_imports=StdExternalCrate"]))
        # a fixed core for the child-module mode: every single line that starts an item, and the
        # whole file, for every sequence with one blank line between the items
        core_jobs = []
        for seq in SEQS:
            src, spans = build_source(seq, 1)
            n = src.count("\n")
            for sel in [[[lo, lo]] for (_, lo, _) in spans] + [[[1, n]]]:
                core_jobs.append((0, base, rustfmt, src, spans, sel, "child", singles, []))
        if tier == "quick":
            rng.shuffle(jobs)
            jobs = jobs[:420]
        jobs = [(k,) + j[1:] for k, j in enumerate(core_jobs + jobs)]
        with ThreadPoolExecutor(max_workers=12) as ex:
            grecs = list(ex.map(run_one, jobs))
        slim = []
        for a in arecs:
            slim.append(dict(a))
        for g in grecs:
            slim.append({k: g[k] for k in ("kind", "sel", "items", "reports", "other_untouched",
                                           "unchanged")})
        fails, ostates = core.eval_report("FileLinesObs", "FileLinesObs.cfg", slim, scratch=base,
                                          chunk=3000)
    na = len(arecs)
    for idx, f in fails:
        bad = [x for x in f["fails"] if x != "AsModel"]
        if idx < na:
            if bad:
                v.violation(f"algebra:{','.join(bad)}:{arecs[idx]['sel']}",
                            f"FileLines built from {arecs[idx]['sel']} -> {arecs[idx]['norm']}: {bad}",
                            arecs[idx])
            else:
                v.drift += 1
        elif bad:
            g = grecs[idx - na]
            job = jobs[idx - na]
            # is an item of a reorderable run (use / extern crate) itself selected?
            runsel = any(it in "UWVX" and any(a <= hi and lo <= b for (a, b) in g["sel"])
                         for (it, lo, hi) in job[4])
            # does a selected range touch the run of blank lines directly before (or after) an
            # indented item I?  (the recorded defect: the gap and the item are judged together,
            # such a range drags the item's indentation along)
            sp = job[4]
            adj = False
            for k, (it, lo, hi) in enumerate(sp):
                if it != "I":
                    continue
                # the blank run next to the item, at least the line directly before / after it
                before = (min(sp[k - 1][2] + 1 if k else 1, lo - 1), lo - 1)
                after = (hi + 1, max(sp[k + 1][1] - 1 if k + 1 < len(sp) else hi + 1, hi + 1))
                for (g0, g1) in (before, after):
                    if g0 <= g1 and any(a <= g1 and g0 <= b for (a, b) in g["sel"]):
                        adj = True
            adjs = f"adjI={adj}:" if any(it == "I" for (it, _, _) in job[4]) else ""
            v.violation(f"gate:{','.join(bad)}:{adjs}runsel={runsel}:sel={g['sel']}:seq={[s[0] for s in job[4]]}:"
                        f"mode={job[6]}:{core.fnv(job[3].encode()) % 1000}:{'-'.join(x for x in job[8] if not x.startswith('--')) if job[8] else ''}",
                        f"{bad} with --file-lines {g['sel']} ({job[6]}): items {g['items']} "
                        f"reports {g['reports']}", {"source": job[3], "sel": g["sel"], "mode": job[6],
                                                    "out": g["out"], "stderr": g["stderr"],
                                                    "items": g["items"]})
    v.sample({"algebra": {k: arecs[0][k] for k in ("sel", "norm")}})
    v.sample({"gate": {"sel": grecs[0]["sel"], "items": grecs[0]["items"][:3]}})
    cov = {"states": res.distinct, "transitions": res.states,
           "traces_validated_against_impl": len(slim) - len(fails),
           "evaluations": len(slim),
           "distinct_nontrivial": len({json.dumps(x["sel"]) for x in slim}),
           "rule": "(a) every selection of <= 3 ranges with endpoints 0..4 (quick: all of size <= 2, "
                   "2500 seed-selected of size 3) built through from_ranges and through the "
                   "--file-lines JSON parser, all queries; (b) files of 1..4 mis-laid-out items "
                   "(one a function with 3 statements) x 0..2 blank lines x selections (single, "
                   "pairs, chains of three, empty, past the end) run through the real binary by "
                   "path and on stdin; distinct = distinct selections",
           "algebra_records": na, "gate_records": len(grecs), "obs_states": ostates,
           "exhaustive": tier == "thorough"}
    return v.finish("model_checking", cov, [
        "an item is 'verbatim' / 'formatted' when its source lines / its stand-alone formatted "
        "lines occur as consecutive lines of the output"])
