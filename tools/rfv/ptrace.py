"""Validation of recorded pipeline traces against spec/PipelineTrace.tla."""
import json

from . import core

INVS = {
    "C05": {"TrNoWriteBeforeResolved", "TrErrIsOperational"},
    "C06": {"TrReadOnly", "TrWriteOnlyIfDiffers", "TrExit"},
    "C13": {"TrEachOnce", "TrAllFormatted"},
    "C15": {"TrFlagsSticky", "TrFlagsOr", "TrExit"},
}
KEEP = ("ev", "check", "files", "mode", "backup", "flags", "ok", "path", "differs", "point",
        "report", "code", "why")


def records_of(obs):
    recs = []
    for n, o in enumerate(obs):
        evs = [e for e in o.get("events", []) if e.get("depth", 0) <= 1]
        if not evs:
            continue
        recs.append({"ev": "reset", "run": n})
        for e in evs:
            recs.append({k: e[k] for k in KEEP if k in e})
    return recs


def validate(obs, scratch):
    """-> (runs accepted, [ {invariant|None, key, record, run_records} ], states)"""
    recs = records_of(obs)
    if not recs:
        return 0, [], 0
    fails, states = core.eval_report("PipelineTrace", "PipelineTrace.cfg", recs,
                                     scratch=scratch, depth_first=True,
                                     is_start=lambda r: r.get("ev") == "reset")
    starts = [i for i, r in enumerate(recs) if r["ev"] == "reset"]
    out = []
    bad_runs = set()
    for idx, f in fails:
        st = max(s for s in starts if s <= idx)
        en = min([s for s in starts if s > idx] + [len(recs)])
        o = obs[recs[st]["run"]]
        key = json.dumps({"roots": [r["fault"] for r in o.get("roots", [])],
                          "mode": o.get("mode"), "fl": o.get("fl"), "tag": o.get("tag")},
                         sort_keys=True)
        bad_runs.add(st)
        if f["bad"]:
            out.append({"invariant": f["bad"], "key": key, "record": None,
                        "run_records": recs[st:en]})
        if not f["inOrder"]:
            out.append({"invariant": None, "key": key, "record": None,
                        "run_records": recs[st:en]})
    return len(starts) - len(bad_runs), out, states
