"""C19 — format-diff turns a patch into exactly the lines it added.

spec/FormatDiff.tla     scan_diff as a line machine over abstract patches vs the
                        declarative meaning of the patch (TLC: all small patches)
spec/FormatDiffObs.tla  the clauses evaluated by TLC on runs of the real tool
"""
import json
import re
import os
import random
import shutil
import stat
import subprocess
from concurrent.futures import ThreadPoolExecutor
from pathlib import Path

from . import core
from .core import Scratch, ToolError, Verdict, log, tlc

STANDIN = """#!/usr/bin/env python3
import json, os, sys
with open(os.environ["STANDIN_LOG"], "a") as f:
    f.write(json.dumps(sys.argv[1:]) + "\\n")
st = int(os.environ.get("STANDIN_STATUS", "0"))
if st >= 128:
    # a formatter that dies from a signal (crash, OOM killer, timeout wrapper)
    os.kill(os.getpid(), st - 128)
sys.exit(st)
"""
FILTER_ARGS = {"rs": [], "src": ["-f", "src/.*"], "none": ["-f", "nomatch_[0-9]"],
               # regular expressions whose leftmost-first match is not their longest one, optional
               # groups, classes: the filter selects the paths it matches AS A WHOLE
               "alt": ["-f", r".*\.(rs|rs\.in)"], "lazy": ["-f", r".*?\.rs"],
               "opt": ["-f", r".*\.rs(\.in)?"], "cls": ["-f", r"src/[a-x]\.rs"],
               "alt2": ["-f", r"src/(x|x\.rs\.d/z|y)\.rs"],
               # a TOP-LEVEL alternation: each alternative has to match the whole path
               "topalt": ["-f", r"src/x\.rs|y\.rs|src/brand_new\.rs"]}
FILTER_RE = {"rs": r".*\.rs", "alt": r".*\.(rs|rs\.in)", "lazy": r".*?\.rs", "opt": r".*\.rs(\.in)?",
             "cls": r"src/[a-x]\.rs", "alt2": r"src/(x|x\.rs\.d/z|y)\.rs",
             "topalt": r"src/x\.rs|y\.rs|src/brand_new\.rs"}


def render(patch):
    out = []
    for sec in patch:
        path = "/".join(sec["path"])
        old = "a/" + "/".join(sec["path"][1:]) if sec["path"][0] == "b" else path
        out.append(f"diff --git {old} {path}")
        out.append(f"--- {old}")
        out.append(f"+++ {path}")
        for h in sec["hunks"]:
            o = f"-{h['ns']}" + (f",{h['oc']}" if h["ocShown"] else "")
            n = f"+{h['ns']}" + (f",{h['nc']}" if h["ncShown"] else "")
            head = {"none": "", "text": " fn foo(a: u32) {", "plusnum": " let x = y +7;"}[h["heading"]]
            out.append(f"@@ {o} {n} @@{head}")
            for k in range(h["oc"]):
                if k == 0 and h["body"] == "minus3":
                    out.append("--- a/other/z.rs")      # the removed line `-- a/other/z.rs`
                else:
                    out.append(f"-    old line {k}")
            for k in range(h["nc"]):
                if k == 0 and h["body"] == "plus3":
                    out.append("+++ b/other/z.rs")
                else:
                    out.append(f"+    new line {k}")
    return "\n".join(out) + "\n"


def run_tool(tool, standin, d, n, text, p, flt, status):
    lg = d / f"log{n}.ndjson"
    env = core.run_env({"RUSTFMT": str(standin), "STANDIN_LOG": str(lg),
                        "STANDIN_STATUS": str(status)})
    r = subprocess.run([tool, "-p", str(p)] + FILTER_ARGS[flt], input=text.encode(), env=env,
                       cwd=d, capture_output=True, timeout=60)
    calls = [json.loads(x) for x in lg.read_text().splitlines()] if lg.exists() else []
    files, got = [], []
    for argv in calls:
        if "--file-lines" in argv:
            i = argv.index("--file-lines")
            files += argv[:i]
            try:
                for e in json.loads(argv[i + 1]):
                    got.append([e["file"], e["range"][0], e["range"][1]])
            except Exception:
                got.append(["<unparsable>", 0, 0])
        else:
            files += argv
    if lg.exists():
        lg.unlink()
    return {"got": got, "files": files, "runs": len(calls), "standin": status,
            "exit": r.returncode}


def real_patches(rng, n):
    """genuine patches produced by diff(1) from pairs of small trees; the expected ranges
    are computed by an independent hunk-walking parser."""
    out = []
    for k in range(n):
        with Scratch("c19d") as d:
            for side in ("a", "b"):
                (d / side / "src").mkdir(parents=True)
            names = ["src/x.rs", "src/y.rs", "src/notes.txt", "src/gen.rs.in", "src/x.rs.d/z.rs"]
            (d / "a" / "src" / "x.rs.d").mkdir()
            (d / "b" / "src" / "x.rs.d").mkdir()
            for nm in names:
                base = [f"line {i} of {nm}" for i in range(1, rng.randint(3, 14))]
                if k % 2 == 0:
                    # blank lines: as context they are printed as ` ` or, by
                    # --suppress-blank-empty (git: diff.suppressBlankEmpty), as an EMPTY line
                    for _ in range(rng.randint(1, 4)):
                        base.insert(rng.randrange(len(base) + 1), "")
                new = list(base)
                for _ in range(rng.randint(0, 3)):
                    op = rng.choice(["ins", "del", "rep", "ins_first", "ins_last"])
                    pos = rng.randrange(len(new) + 1) if new else 0
                    if op == "ins":
                        new[pos:pos] = [f"added {rng.randint(0, 99)} +{rng.randint(1, 9)}"]
                    elif op == "ins_first":
                        new[0:0] = ["first"]
                    elif op == "ins_last":
                        new.append("last")
                    elif op == "del" and new:
                        del new[min(pos, len(new) - 1)]
                    elif new:
                        new[min(pos, len(new) - 1)] = f"changed {rng.randint(0, 99)}"
                (d / "a" / nm).write_text("".join(x + "\n" for x in base))
                if rng.random() < 0.9:
                    (d / "b" / nm).write_text("".join(x + "\n" for x in new))
            if rng.random() < 0.3:
                (d / "b" / "src" / "brand_new.rs").write_text("fn n() {}\n")
            ctx = rng.randint(0, 3)
            sbe = ["--suppress-blank-empty"] if k % 4 == 0 else []
            r = subprocess.run(["diff", "-r", "-N", f"-U{ctx}"] + sbe + ["a", "b"], cwd=d,
                               capture_output=True, text=True)
            text = r.stdout
        flt = sorted(FILTER_RE)[k % len(FILTER_RE)] if k % 2 else "rs"
        exp = []
        cur, remain_old, remain_new = None, 0, 0
        for ln in text.split("\n"):
            if remain_old > 0 or remain_new > 0:
                if ln.startswith("+"):
                    remain_new -= 1
                elif ln.startswith("-"):
                    remain_old -= 1
                elif ln.startswith("\\"):
                    pass
                else:
                    remain_old -= 1
                    remain_new -= 1
                continue
            if ln.startswith("+++ "):
                path = ln[4:].split("\t")[0]
                comps = path.split("/")
                cur = "/".join(comps[1:]) if len(comps) > 1 else None
            elif ln.startswith("@@ "):
                parts = ln.split(" ")
                o, nn = parts[1], parts[2]
                oc = int(o.split(",")[1]) if "," in o else 1
                ns = int(nn[1:].split(",")[0])
                nc = int(nn.split(",")[1]) if "," in nn else 1
                remain_old, remain_new = oc, nc
                if cur and re.fullmatch(FILTER_RE[flt], cur) and nc > 0:
                    exp.append([cur, ns, ns + nc - 1])
        out.append({"text": text, "p": 1, "flt": flt, "exp": exp, "tag": f"diff-U{ctx}" + ("-sbe" if sbe else "")})
    return out


def run(tier, seed, replay=None):
    v = Verdict("C19", tier, seed)
    rng = random.Random(seed)
    core.build(harness=False)
    tool = core.bin_path("rustfmt-format-diff")
    res = tlc("MC_FormatDiff", f"FormatDiff_{tier}.cfg", workers=8, timeout=2400)
    if not res.ok:
        v.violation("model", "FormatDiff.tla: " + (res.violation or "")[:400], {"tlc": res.raw[-2000:]})
    main = core.printed_json(res, "REPLAY")
    states, trans = res.distinct, res.states
    extra = []
    for cfg in ("FormatDiff_heading.cfg", "FormatDiff_plus3.cfg", "FormatDiff_short.cfg",
                "FormatDiff_minus3.cfg"):
        r2 = tlc("MC_FormatDiff", cfg, workers=4, timeout=900)
        if not r2.ok:
            raise ToolError(f"{cfg}: " + (r2.violation or "")[:500])
        states += r2.distinct
        trans += r2.states
        sc = core.printed_json(r2, "REPLAY")
        sc.sort(key=lambda s: json.dumps(s, sort_keys=True))
        rng.shuffle(sc)
        extra += sc[: (120 if tier == "quick" else 1500)]
    main.sort(key=lambda s: json.dumps(s, sort_keys=True))
    if tier == "quick":
        core_s = [s for s in main if len(s["patch"]) == 1][:200]
        rest = [s for s in main if len(s["patch"]) > 1]
        rng.shuffle(rest)
        main = core_s + rest[:400]
    elif len(main) > 60000:
        # (the model has ~5e5 terminal states; replaying a fixed tenth of them through the real
        # tool keeps the thorough tier to a few minutes)
        main = [s for s in main if core.fnv(json.dumps(s, sort_keys=True).encode()) % 8 == 0]
    scen = main + extra
    jobs = []
    for s in scen:
        name = lambda comps: "/".join(comps)
        jobs.append({"text": render(s["patch"]), "p": s["p"], "flt": s["flt"],
                     "exp": [[name(r[0]), r[1], r[2]] for r in s["expected"]],
                     "pred": sorted([name(r[0]), r[1], r[2]] for r in s["ranges"]),
                     "tag": "model", "scenario": s})
    jobs += real_patches(rng, 60 if tier == "quick" else 600)
    records = []
    with Scratch("c19") as d:
        standin = d / "standin.py"
        standin.write_text(STANDIN)
        standin.chmod(standin.stat().st_mode | stat.S_IEXEC)

        def one(t):
            n, j = t
            status = [0, 0, 1, 3, 0, 137, 0, 134][n % 8]
            o = run_tool(tool, standin, d, n, j["text"], j["p"], j["flt"], status)
            o["exp"] = j["exp"]
            return o
        with ThreadPoolExecutor(max_workers=12) as ex:
            records = list(ex.map(one, enumerate(jobs)))
        slim = [{k: r[k] for k in ("exp", "got", "files", "runs", "standin", "exit")}
                for r in records]
        fails, ostates = core.eval_report("FormatDiffObs", "FormatDiffObs.cfg", slim, scratch=d)
    failing = {idx: f["fails"] for idx, f in fails}
    n_match = 0
    for idx, (j, r) in enumerate(zip(jobs, records)):
        if "pred" in j:
            if sorted(r["got"]) == j["pred"]:
                n_match += 1
            else:
                v.drift += 1
        if idx in failing:
            kind = "real-diff"
            if j["tag"] == "model":
                hs = [h for sec in j["scenario"]["patch"] for h in sec["hunks"]]
                kind = ("heading-plusnum" if any(h["heading"] == "plusnum" for h in hs)
                        else "body-plus3" if any(h["body"] == "plus3" for h in hs)
                        else "short-path" if any(len(sec["path"]) <= j["p"]
                                                 for sec in j["scenario"]["patch"])
                        else "plain")
            v.violation(f"{kind}:{','.join(sorted(failing[idx]))}:p={j['p']}:flt={j['flt']}:"
                        + json.dumps(j.get("scenario", {}).get("patch", j["text"][:300])),
                        f"{failing[idx]} for a {kind} patch: expected {j['exp']} got {r['got']} "
                        f"files {r['files']} runs {r['runs']} exit {r['exit']} "
                        f"(stand-in status {r['standin']})",
                        {"patch_text": j["text"], "p": j["p"], "filter": j["flt"],
                         "expected": j["exp"], "observed": r})
    for j, r in list(zip(jobs, records))[:2]:
        v.sample({"patch": j["text"][:300], "p": j["p"], "filter": j["flt"], "got": r["got"]})
    cov = {"states": states, "transitions": trans,
           "traces_validated_against_impl": n_match,
           "evaluations": len(records),
           "distinct_nontrivial": len({(j["text"], j["p"], j["flt"]) for j in jobs}),
           "rule": "TLC enumerates abstract patches (<= 2 sections, header forms with/without "
                   "counts, zero counts, section headings, look-alike content lines, short paths, "
                   "/dev/null) x -p 0..3 x 3 filters; each is rendered and piped into the real "
                   "rustfmt-format-diff with a recording stand-in (scripted exit statuses), plus "
                   "genuine diff(1) patches of random small trees at -U0..3; distinct = distinct "
                   "(patch text, p, filter)",
           "obs_states": ostates, "exhaustive": tier == "thorough"}
    return v.finish("model_checking", cov, [
        "abstract patch lines are rendered to text by the harness; expected ranges of genuine "
        "diffs come from an independent hunk-walking parser"])
