"""Pool of persistent in-process formatter workers (harness bin rfv-run) with a
per-job watchdog.  A job that panics the worker, kills it or exceeds its budget
is reported as data ({"died":..} / {"timeout": true}), never as a tool error."""
import json
import os
import queue
import select
import subprocess
import threading
import time

from . import core


class Worker:
    def __init__(self, scratch, binary=None):
        self.scratch = scratch
        self.binary = binary or core.harness_bin("rfv-run")
        self.p = None
        self.buf = b""
        self.start()

    def start(self):
        env = core.run_env({"RFV_SCRATCH": str(self.scratch), "RUST_BACKTRACE": "0"})
        self.p = subprocess.Popen([self.binary], stdin=subprocess.PIPE,
                                  stdout=subprocess.PIPE, stderr=subprocess.DEVNULL, env=env)
        self.buf = b""

    def kill(self):
        try:
            self.p.kill()
            self.p.wait(timeout=5)
        except Exception:
            pass

    def run(self, job, timeout):
        line = (json.dumps(job) + "\n").encode()
        try:
            self.p.stdin.write(line)
            self.p.stdin.flush()
        except Exception:
            self.kill()
            self.start()
            return {"id": job.get("id"), "died": "stdin closed"}
        deadline = time.time() + timeout
        fd = self.p.stdout.fileno()
        while True:
            if b"\n" in self.buf:
                out, self.buf = self.buf.split(b"\n", 1)
                try:
                    return json.loads(out)
                except Exception:
                    return {"id": job.get("id"), "died": "garbled answer"}
            left = deadline - time.time()
            if left <= 0:
                self.kill()
                self.start()
                return {"id": job.get("id"), "timeout": True}
            r, _, _ = select.select([fd], [], [], min(left, 1.0))
            if r:
                chunk = os.read(fd, 1 << 16)
                if not chunk:
                    code = self.p.poll()
                    self.kill()
                    self.start()
                    return {"id": job.get("id"), "died": f"worker exited ({code})"}
                self.buf += chunk


def run_jobs(jobs, scratch, workers=14, timeout=20, binary=None):
    """Run all jobs; returns results in job order."""
    q = queue.Queue()
    for i, j in enumerate(jobs):
        q.put((i, j))
    results = [None] * len(jobs)

    def loop():
        w = Worker(scratch, binary)
        while True:
            try:
                i, j = q.get_nowait()
            except queue.Empty:
                break
            results[i] = w.run(j, j.get("_timeout", timeout))
        try:
            w.p.stdin.close()
            w.p.wait(timeout=5)
        except Exception:
            w.kill()

    ts = [threading.Thread(target=loop) for _ in range(min(workers, max(1, len(jobs))))]
    for t in ts:
        t.start()
    for t in ts:
        t.join()
    return results
