"""C04 — skip-marked code and opted-out files are emitted verbatim.

spec/Skip.tla: TLC walks every syntactic path (depth <= 3) and prints one scenario per target
that can stand there, with the answer of the transcription of the scoping / recognition code
(`oper`) and the property's promise (`decl`); TLC also checks ScopingSound / NoSpuriousSkip on
the transcription.  Every scenario is rendered as Rust source with a deliberately mis-laid-out
target inside mis-laid-out surroundings and formatted by the real code; F.6 (the target's
bytes occur in the output) decides `real`.  real # decl: VIOLATION; real # oper: DRIFT.
Whole-file opt-outs are replayed through the real binary.
"""
import hashlib
import json
import os
import random
import shutil
import subprocess

from . import core, ucore, universe
from .core import Scratch, ToolError, Verdict, log

SIB = "let  s{i}=( 1 ,2 ) ;"
SIB_DONE = "let s{i} = (1, 2);"
MAC_ARGS = "( qz ,  1+1 )"
ATTR = "#[a( qz ,  x )]"
SPELL = {
    "skip": "#[rustfmt::skip]",
    "depr": "#[rustfmt_skip]",
    "cfg_skip": "#[cfg_attr(rustfmt, rustfmt::skip)]",
    "cfg_depr": "#[cfg_attr(rustfmt, rustfmt_skip)]",
    "cfg_cfg_skip": "#[cfg_attr(rustfmt, cfg_attr(rustfmt, rustfmt::skip))]",
    "cfg_multi": "#[cfg_attr(rustfmt, rustfmt::skip, allow(unused))]",
    "nb_before": "#[nb(x = 1 + 2, y = %z)]\n#[rustfmt::skip]",
    "nb_after": "#[rustfmt::skip]\n#[nb(x = 1 + 2, y = %z)]",
    "doc_before": "/// documented\n#[rustfmt::skip]",
}
# node kind -> (text around {A} = attribute and {N} = node, node text)
NODES = {
    "fn": ("{A}\n{N}", "fn   qz ( a : u32 ,b:u32 )  { let  x=1 ; }"),
    "struct": ("{A}\n{N}", "struct   Qz { a : u32 ,b:u32 }"),
    "enum": ("{A}\n{N}", "enum   Qz { A ,B( u32 ) }"),
    "union": ("{A}\n{N}", "union   Qz { a : u32 ,b:f32 }"),
    "impl": ("{A}\n{N}", "impl   Qz { fn  f ( ) { } }"),
    "trait": ("{A}\n{N}", "trait   Qz { fn  f ( ) ; }"),
    "mod": ("{A}\n{N}", "mod   qz { fn  f ( ) { } }"),
    "const": ("{A}\n{N}", "const   QZ : u32=1 ;"),
    "static": ("{A}\n{N}", "static   QZ : u32=1 ;"),
    "type": ("{A}\n{N}", "type   Qz=Vec< u32 > ;"),
    "use": ("{A}\n{N}", "use   qa :: { c ,b } ;"),
    "externcrate": ("{A}\n{N}", "extern   crate   qz ;"),
    "macrodef": ("{A}\n{N}", "macro_rules !   qz { ( ) => { 1+1 } ; }"),
    "foreign": ("extern  \"C\"  {{\n{A}\n{N}\n}}", "fn   qz ( a : u32 ) ;"),
    "field": ("struct  Wf  {{\n{A}\n{N} ,\nother:u32 }}", "qz : Vec< u32 >"),
    "variant": ("enum  Wv  {{\n{A}\n{N} ,\nOther }}", "Qz ( u32 ,u32 )"),
    # positional fields: of a tuple struct, of a tuple variant
    "tuplefield": ("struct  Wt ( {A} {N} ,   u32 ) ;", "Vec< qz >"),
    "tuplevariantfield": ("enum  We  {{ V ( {A} {N} ,   u32 ) , Other }}", "Vec< qz >"),
    "fn_ml": ("{A}\n{N}", "fn   qz ( )  {\n        let  x=1 ;\n  }"),
    "struct_ml": ("{A}\n{N}", "struct   Qz {\n        a : u32 ,\n  b:u32 }"),
    "impl_ml": ("{A}\n{N}", "impl   Qz {\n      fn  f ( ) { }\n   }"),
    "afn": ("{A}\n{N}", "fn   qz ( & self ,a:u32 )  { }"),
    "aconst": ("{A}\n{N}", "const   QZ : u32=1 ;"),
    "atype": ("{A}\n{N}", "type   Qz=u32 ;"),
    "afn_ml": ("{A}\n{N}", "fn   qz ( & self )  {\n        let  x=1 ;\n  }"),
    "let": ("{A}\n{N}", "let   qz=( 1 ,2 ) ;"),
    "exprstmt": ("{A}\n{N}", "qz ( 1 ,2 ) ;"),
    "macstmt": ("{A}\n{N}", "qz ! ( 1 ,2 ) ;"),
    "arm": ("match  v  {{\n{A}\n{N} ,\n_=>{{ }} }}", "1   =>   qz ( 1 ,2 )"),
    "litfield": ("let  l=Wl  {{\n{A}\n{N} ,\nother:2 }} ;", "qz :  1+1"),
    "expr": ("let  e=\n{A}\n{N} ;", "[ 1 ,qz ]"),
    "let_ml": ("{A}\n{N}", "let   qz=(\n          1 ,\n   2 ) ;"),
    "arm_ml": ("match  v  {{\n{A}\n{N}\n_=>{{ }} }}", "1   =>   {\n          qz ( 1 ,2 )\n   }"),
    "closurestmt": ("{A}\n{N}", "let   qz=| a ,b |  a+b ;"),
    "closurearg_if": ("f( {A} {N} ) ;", "| x |  if x  {{  1  }}  else  {{  qz  }}".replace("{{", "{").replace("}}", "}")),
    "closurearg_block": ("f( {A} {N} ) ;", "| x |  {{  qz ( x ,1 )  }}".replace("{{", "{").replace("}}", "}")),
    "closurearg_loop": ("x.g( {A} {N} ) ;", "| y |  loop  {{  qz ( y ) ;  }}".replace("{{", "{").replace("}}", "}")),
    "callarg": ("foo ( {A} {N} , 2 ) ;", "[ 1 ,qz ]"),
    "lastarg": ("foo ( 2 , {A} {N} ) ;", "bar ( 1 ,qz )"),
    "tupleelem": ("let  t=( {A} {N} , 2 ) ;", "[ 1 ,qz ]"),
    "arrayelem": ("let  t=[ {A} {N} , [ 2 ,3 ] ] ;", "[ 1 ,qz ]"),
    "binop": ("let  t=1+ {A} {N} ;", "( qz  *  2 )"),
    "retval": ("return  {A} {N} ;", "[ 1 ,qz ]"),
    "innerparen": ("let  t=( {A} {N} ) ;", "( qz  *  2 )"),
    # a skipped declaration directly after an unskipped one of the same kind (it must not be
    # drawn into the reorderable run of its neighbour)
    # an out-of-line module declaration as a statement of a block
    "moddecl_stmt": ("{A}\n{N}", "mod   qz ;"),
    "use_after": ("use zz::first;\n{A}\n{N}\nuse zz::last;", "use   qa :: { c ,b } ;"),
    "externcrate_after": ("extern crate zz;\n{A}\n{N}", "extern   crate   qz ;"),
    # the skip attribute written as an INNER attribute of the node's own body (@AI@)
    "fn_inner": ("{N}", "fn   qz ( a : u32 ,b:u32 )  {\n    @AI@\n    let  x=1 ;\n}"),
    "impl_inner": ("{N}", "impl   Qz  {\n    @AI@\n    fn  f ( ) { }\n}"),
    "trait_inner": ("{N}", "trait   Qz  {\n    @AI@\n    fn  f ( ) ;\n}"),
    "mod_inner": ("{N}", "mod   qz  {\n    @AI@\n    fn  f ( ) { }\n}"),
    "foreign_inner": ("{N}", "extern  \"C\"  {\n    @AI@\n    fn   qz ( a : u32 ) ;\n}"),
    "afn_inner": ("{N}", "fn   qz ( & self ,a:u32 )  {\n    @AI@\n    let  x=1 ;\n}"),
    "block_inner": ("let  b={N} ;", "{\n    @AI@\n    qz ( 1 ,2 )\n}"),
}


# every other scenario writes a declaration as TWO attributes of its kind on the node, the name
# that matters in the later one (`the names listed by every skip::macros attribute of the node')
TWICE = False


def decl_attrs(d, inner=False):
    bang = "!" if inner else ""
    out = []
    if d in ("M", "MA"):
        if TWICE:
            out.append(f"#{bang}[rustfmt::skip::macros(zz_other)]")
        out.append(f"#{bang}[rustfmt::skip::macros(m)]")
    if d in ("A", "MA"):
        if TWICE:
            out.append(f"#{bang}[rustfmt::skip::attributes(zz_other)]")
        out.append(f"#{bang}[rustfmt::skip::attributes(a)]")
    return "\n".join(out) + ("\n" if out else "")


def wrap(c, d, i, inner):
    sib = SIB.format(i=i)
    if c == "mod":
        return f"{decl_attrs(d)}mod   w{i}  {{\nfn  sb{i} ( ) {{ {sib} }}\n{inner}\n}}"
    if c == "modI":
        return f"mod   w{i}  {{\n{decl_attrs(d, True)}fn  sb{i} ( ) {{ {sib} }}\n{inner}\n}}"
    if c == "fn":
        return f"{decl_attrs(d)}fn   w{i} ( )  {{\n{sib}\n{inner}\n}}"
    if c == "fnI":
        return f"fn   w{i} ( )  {{\n{decl_attrs(d, True)}{sib}\n{inner}\n}}"
    if c == "impl":
        return f"{decl_attrs(d)}impl   W{i}  {{\nfn  sb{i} ( ) {{ {sib} }}\n{inner}\n}}"
    if c == "trait":
        return f"{decl_attrs(d)}trait   W{i}  {{\nfn  sb{i} ( ) {{ {sib} }}\n{inner}\n}}"
    if c == "method":
        return f"{decl_attrs(d)}fn   w{i} ( & self )  {{\n{sib}\n{inner}\n}}"
    if c == "ifb":
        return f"if  c{i}  {{\n{sib}\n{inner}\n}}"
    if c == "closure":
        return f"let  f{i}=| |  {{\n{sib}\n{inner}\n}} ;"
    if c == "loopb":
        return f"loop  {{\n{sib}\n{inner}\n}}"
    if c == "armb":
        return f"match  v{i}  {{\n1=>{{\n{sib}\n{inner}\n}} ,\n_=>{{ }} }}"
    if c == "blockb":
        return f"{{\n{sib}\n{inner}\n}}"
    if c == "unsafeb":
        return f"unsafe  {{\n{sib}\n{inner}\n}}"
    if c == "letd":
        return f"{decl_attrs(d)}let  v{i}={inner} ;"
    raise ToolError(f"unknown construct {c}")


def render(sc):
    """-> (source, verbatim marker, list of sibling texts that must change)"""
    global TWICE
    TWICE = core.fnv(key_of(sc).encode()) % 2 == 1
    if sc["kind"] == "name":
        t = sc["target"]
        if t in ("mac_item", "mac_assoc", "mac_stmt"):
            inner = f"m ! {MAC_ARGS} ;"
            marker = MAC_ARGS
        elif t == "mac_expr":
            inner = f"let  e=m ! {MAC_ARGS} ;"
            marker = MAC_ARGS
        elif t == "mac_init":
            inner = f"m ! {MAC_ARGS}"
            marker = MAC_ARGS
        elif t == "attr_item":
            inner = f"{ATTR}\nstruct   Qz ;"
            marker = ATTR
        elif t == "attr_let":
            inner = f"{ATTR}\nlet  t=1 ;"
            marker = ATTR
        elif t == "attr_method":
            inner = f"{ATTR}\nfn  g ( & self ) {{ }}"
            marker = ATTR
        else:
            raise ToolError(f"unknown target {t}")
    else:
        tpl, node = NODES[sc["node"]]
        node = node.replace("@AI@", SPELL[sc["spelling"]].replace("#[", "#![").replace("/// ", "//! ")
                            .replace("\n", "\n    "))
        inner = tpl.format(A=SPELL[sc["spelling"]], N=node)
        marker = node
    path = sc["path"]
    text = inner
    files = {}
    for i in range(len(path), 0, -1):
        c, d = path[i - 1]["c"], path[i - 1]["d"]
        if c in ("modfileI", "modfileO"):
            # the module lives in a file of its own: <enclosing module names>/w<i>.rs
            dirs = [f"w{k}" for k in range(1, i) if path[k - 1]["c"] in ("mod", "modI", "modfileI",
                                                                          "modfileO")]
            sib = SIB.format(i=i)
            body = (decl_attrs(d, True) if c == "modfileI" else "") + \
                f"fn  sb{i} ( ) {{ {sib} }}\n{text}\n"
            files["/".join(dirs + [f"w{i}.rs"])] = body
            text = (decl_attrs(d) if c == "modfileO" else "") + f"mod   w{i} ;"
        else:
            text = wrap(c, d, i, text)
    head = decl_attrs(sc["crated"], True)
    if not path or path[0]["c"] in ("mod", "modI", "fn", "fnI", "impl", "trait", "modfileI",
                                    "modfileO"):
        text = head + "fn   sb0 ( )  { " + SIB.format(i=0) + " }\n" + text + "\n"
    sibs = [SIB_DONE.format(i=i) for i in range(0 if True else 1, len(path) + 1)
            if i == 0 or path[i - 1]["c"] != "letd"]
    return text, marker, sibs, files


def key_of(sc):
    p = ">".join(x["c"] + ("" if x["d"] == "none" else "+" + x["d"]) for x in sc["path"]) or "top"
    cr = "" if sc["crated"] == "none" else "crate+" + sc["crated"] + ">"
    if sc["kind"] == "name":
        return f"name:{sc['target']}:cfg={sc['cfg']}:{cr}{p}"
    return f"node:{sc['node']}:{sc['spelling']}:{cr}{p}"


def opts_of(sc, hp):
    w = universe.WIDTHS[hp % len(universe.WIDTHS)]
    se = universe.STYLE_EDITIONS[(hp // 7) % 3]
    o = {"max_width": w, "style_edition": se, "edition": "2021"}
    if sc.get("cfg") == "m":
        o["skip_macro_invocations"] = '["m"]'
    elif sc.get("cfg") == "star":
        o["skip_macro_invocations"] = '["*"]'
    return o


def optouts(v, scen, sc):
    """(d): whole-file opt-outs through the real binary."""
    rustfmt = core.bin_path("rustfmt")
    ugly = "fn   main ( )  { let  x=( 1 ,2 ) ; }\n"
    done = 0
    for s in scen:
        o, mode = s["optout"], s["mode"]
        d = sc / f"oo-{o}-{mode}"
        shutil.rmtree(d, ignore_errors=True)
        d.mkdir()
        root = d / "lib.rs"
        target = d / "t.rs"
        sibling = d / "sib.rs"
        sibling.write_text(ugly)
        args = []
        roots = [root]
        root_text = "mod  t ;\nmod  sib ;\n" + ugly
        ttext = ugly
        if o == "inner_skip":
            ttext = "#![rustfmt::skip]\n" + ugly
        elif o == "inner_depr":
            ttext = "#![rustfmt_skip]\n" + ugly
        elif o == "inner_cfg_skip":
            ttext = "#![cfg_attr(rustfmt, rustfmt::skip)]\n" + ugly
        elif o == "inner_skip_child":
            ttext = "#![rustfmt::skip]\n" + ugly
        elif o == "disable_all":
            args = ["--config", "disable_all_formatting=true"]
        elif o == "ignore":
            (d / "rustfmt.toml").write_text('ignore = ["t.rs"]\n')
        elif o == "generated":
            ttext = "// @generated by a tool\n" + ugly
            args = ["--config", "format_generated_files=false"]
        elif o.startswith("generated_"):
            head = {"generated_block1": "/* @generated */\n",
                    "generated_blockend": "/* this file is\n   @generated */\n",
                    "generated_aftercode": "#![allow(unused)] /* @generated */\n",
                    "generated_docinner": "//! @generated\n",
                    "generated_star": "/*\n * @generated by a tool\n */\n",
                    "generated_line5": "// 1\n// 2\n// 3\n// 4\n// @generated\n"}[o]
            ttext = head + ugly
            args = ["--config", "format_generated_files=false"]
        elif o == "inner_skip_twopaths":
            ttext = "#![rustfmt::skip]\n" + ugly
            root_text = ('#[cfg_attr(unix, path = "t.rs")]\n#[cfg_attr(windows, path = "t.rs")]\n'
                         "mod  t ;\nmod  sib ;\n" + ugly)
        elif o == "inner_skip_path_default":
            ttext = "#![rustfmt::skip]\n" + ugly
            root_text = ('#[cfg_attr(unix, path = "sib.rs")]\n#[cfg_attr(windows, path = "t.rs")]\n'
                         "mod  t ;\n" + ugly)
        elif o == "skipped_mod_decl":
            root_text = "#[rustfmt::skip]\nmod  t ;\nmod  sib ;\n" + ugly
        elif o == "skipped_mod_decl_nonroot":
            root_text = "mod  a ;\nmod  sib ;\n" + ugly
            (d / "a.rs").write_text("#[rustfmt::skip]\nmod  t ;\n" + ugly)
            (d / "a").mkdir()
            target = d / "a" / "t.rs"
        elif o == "skipped_mod_decl_inline":
            root_text = "mod  a ;\nmod  sib ;\n" + ugly
            (d / "a.rs").write_text("mod  i  {\n#[rustfmt::skip]\nmod  t ;\n}\n" + ugly)
            (d / "a" / "i").mkdir(parents=True)
            target = d / "a" / "i" / "t.rs"
        elif o == "skipped_mod_decl_cfg_if":
            root_text = ("cfg_if::cfg_if! {\n    if #[cfg(unix)] {\n        #[rustfmt::skip]\n"
                         "        mod  t ;\n    }\n}\nmod  sib ;\n" + ugly)
        if o in ("inner_skip", "inner_depr", "inner_cfg_skip"):
            # the opted-out file is itself a root of the run, next to an ordinary root
            roots = [target, root]
            root_text = "mod  sib ;\n" + ugly
        root.write_text(root_text)
        target.write_text(ttext)
        before = {p: p.read_bytes() for p in (root, target, sibling)}
        margs = {"files": [], "check": ["--check"], "list": ["-l"],
                 "stdout_diff": ["--emit", "stdout"]}[mode]
        r = subprocess.run([rustfmt, "--edition", "2021"] + args + margs + [str(p) for p in roots],
                           cwd=d, env=core.run_env(), capture_output=True, text=True, timeout=60)
        after = {p: p.read_bytes() for p in (root, target, sibling)}
        key = f"optout:{o}:{mode}"
        unchanged = after[target] == before[target]
        tname = str(target)
        reported = tname in r.stdout or "t.rs" in [ln.strip().rsplit("/", 1)[-1].split(":")[0]
                                                     for ln in r.stdout.splitlines()]
        if mode == "stdout_diff":
            # the file may be echoed; it must be echoed unchanged
            reported = False
            if tname + ":" in r.stdout:
                seg = r.stdout.split(tname + ":", 1)[1]
                if ugly.strip() not in seg:
                    reported = True
        fails = []
        if not unchanged:
            fails.append("changed")
        if reported:
            fails.append("reported")
        sib_formatted = (after[sibling] != before[sibling]) if mode == "files" else \
            ("sib.rs" in r.stdout)
        if o == "disable_all":
            if mode == "check" and r.returncode != 0:
                fails.append(f"exit {r.returncode}")
        if r.returncode not in (0, 1):
            fails.append(f"exit {r.returncode}")
        if mode == "check" and o != "disable_all" and not sib_formatted:
            v.drift += 1
        if mode == "files" and s["expect"]["siblings_formatted"] and not sib_formatted:
            v.drift += 1
            log(f"  DRIFT optout {o}/{mode}: the ordinary sibling file was not formatted")
        if fails:
            v.violation(key, f"whole-file opt-out {o} in mode {mode}: {fails}; stdout {r.stdout[:200]!r} "
                        f"stderr {r.stderr[-200:]!r}", {"optout": o, "mode": mode, "stdout": r.stdout[:2000],
                                                        "stderr": r.stderr[-2000:], "code": r.returncode})
        done += 1
    return done


def run(tier, seed, replay=None):
    v = Verdict("C04", tier, seed)
    rng = random.Random(seed)
    core.build()
    res = core.tlc("Skip", "Skip.cfg" if tier == "quick" else "Skip_thorough.cfg", workers=4,
                   timeout=1500)
    if not res.ok:
        # ScopingSound / NoSpuriousSkip are claims about the transcription itself
        raise ToolError(f"Skip.tla: {res.violation}")
    scen = core.printed_json(res, "SC")
    oo = [s for s in scen if s["kind"] == "optout"]
    sel = [s for s in scen if s["kind"] != "optout"]
    total = len(sel)
    if tier == "quick":
        # every scenario with a declaration at depth <= 2 and every (node, spelling, innermost
        # construct) cell once, plus a seed-chosen sample of the rest
        keep, rest, seen = [], [], set()
        for s in sel:
            if s["kind"] == "name":
                cell = (s["target"], s["cfg"], s["crated"],
                        tuple((x["c"], x["d"]) for x in s["path"] if x["d"] != "none"),
                        s["path"][-1]["c"] if s["path"] else "top", len(s["path"]) > 2)
            else:
                cell = (s["node"], s["spelling"], s["path"][-1]["c"] if s["path"] else "top")
            if cell not in seen:
                seen.add(cell)
                keep.append(s)
            else:
                rest.append(s)
        rng.shuffle(rest)
        sel = keep + rest[:3000]
    jobs, meta = [], []
    for s in sel:
        text, marker, sibs, files = render(s)
        k = key_of(s)
        hp = core.fnv(k.encode())
        jobs.append({"id": len(jobs), "src": text, "opts": opts_of(s, hp), "want": ["out"],
                     "files": files, "name": "input.rs"})
        meta.append((s, k, marker, sibs))
    with Scratch("c04") as sc:
        outs = ucore.run_jobs(jobs, sc, timeout=30)
        n_oo = optouts(v, oo, sc)
    agree = 0
    unusable = 0
    nontriv = set()
    for j, o, (s, k, marker, sibs) in zip(jobs, outs, meta):
        if not (o.get("ok") and not o.get("panic") and not o.get("timeout") and not o.get("died")
                and not o.get("session", {}).get("parsing")):
            unusable += 1
            v.drift += 1
            log(f"  DRIFT {k}: the rendered scenario was not formatted ({o.get('err') or o.get('panic')})")
            continue
        out = o["out"]
        n_src = j["src"].count(marker) + sum(t.count(marker) for t in j["files"].values())
        real = out.count(marker) == n_src and marker in out
        changed = any(sb in out for sb in sibs)
        if not changed:
            v.drift += 1
            log(f"  DRIFT {k}: surroundings were not reformatted")
            continue
        if real != s["oper"]:
            v.drift += 1
        else:
            agree += 1
        if s["decl"] and not real:
            v.violation(k, f"{k}: the skip-marked target {marker!r} was not emitted with its original "
                        f"bytes (width {j['opts']['max_width']}, style edition "
                        f"{j['opts']['style_edition']})",
                        {"scenario": s, "opts": j["opts"], "source": j["src"], "output": out})
        nontriv.add(k.split(":", 2)[1] + ":" + (s["path"][-1]["c"] if s["path"] else "top"))
    for (s, k, marker, sibs) in meta[:2]:
        v.sample({"scenario": k, "oper": s["oper"], "decl": s["decl"]})
    cov = {"evaluations": len(jobs) + n_oo, "distinct_nontrivial": len(nontriv),
           "rule": "Skip.tla scenarios (paths of depth <= 3 over 14 constructs, declarations on every "
                   "declaring construct and on the crate, 3 settings of skip_macro_invocations, 8 name "
                   "targets, 52 node kinds x 9 spellings) rendered and formatted; quick = every cell "
                   "(target/node, spelling/cfg, declaring constructs, innermost construct) once plus a "
                   "seed-chosen sample; distinct_nontrivial = distinct (target or node, innermost "
                   "construct) cells; plus 17 whole-file opt-outs x 4 emit modes through the binary",
           "model_states": res.distinct, "scenarios_in_model": total,
           "traces_replayed_into_impl": len(jobs) + n_oo, "agree_with_transcription": agree,
           "unusable": unusable, "optout_runs": n_oo, "samples": v.samples}
    return v.finish("model_checking", cov, [
        "verbatim = the target's bytes occur in the output as often as in the input (F.6)",
        "a scenario counts only if its deliberately mis-laid-out siblings were reformatted"])
