"""The command-line front end (spec/Cli.tla): combinations of flags run through the real binary,
the observation judged by TLC.  Hosted by C06 (what may be written) and C16 (exit status)."""
import itertools
import json
import subprocess
from concurrent.futures import ThreadPoolExecutor
from pathlib import Path

from . import core

DIMS = [
    ("help", ["none", "bare", "config", "file-lines", "bogus"]),
    ("pc", ["none", "default", "current", "minimal", "bogus"]),
    ("version", [False, True]),
    ("vq", ["none", "verbose", "quiet", "both"]),
    ("unst", ["none", "bare", "with"]),
    ("check", [False, True]),
    ("emit", ["none", "files", "stdout", "json", "checkstyle", "coverage", "bogus"]),
    ("cfgemit", ["none", "stdout", "files"]),
    ("backup", [False, True]),
    ("list", [False, True]),
    ("nargs", [1, 0, 2]),
]
ORIG = "fn  main( ){}\n"
DONE = "fn main() {}\n"


def combos(max_nondefault):
    """every assignment with at most `max_nondefault` dimensions off their default (first) value"""
    out = []
    names = [d for d, _ in DIMS]
    for k in range(max_nondefault + 1):
        for idx in itertools.combinations(range(len(DIMS)), k):
            for vals in itertools.product(*[DIMS[i][1][1:] for i in idx]):
                f = {d: vs[0] for d, vs in DIMS}
                for i, val in zip(idx, vals):
                    f[names[i]] = val
                if f["nargs"] == 2 and f["pc"] == "none":
                    continue        # out.toml would be a missing source file
                out.append(f)
    return out


def argv_of(f, d):
    a = []
    if f["help"] != "none":
        a.append("--help" if f["help"] == "bare" else "--help=" + f["help"])
    if f["pc"] != "none":
        a += ["--print-config", f["pc"]]
    if f["version"]:
        a.append("--version")
    a += {"none": [], "verbose": ["--verbose"], "quiet": ["--quiet"],
          "both": ["--verbose", "--quiet"]}[f["vq"]]
    a += {"none": [], "bare": ["--skip-children"],
          "with": ["--unstable-features", "--skip-children"]}[f["unst"]]
    if f["check"]:
        a.append("--check")
    if f["emit"] != "none":
        a += ["--emit", f["emit"]]
    if f["cfgemit"] != "none":
        a += ["--config", "emit_mode=" + f["cfgemit"]]
    if f["backup"]:
        a.append("--backup")
    if f["list"]:
        a.append("-l")
    if f["nargs"] == 2:
        a.append(str(d / "out.toml"))
    if f["nargs"] >= 1:
        a.append(str(d / "a.rs"))
    return a


def classify(out):
    lines = [ln for ln in out.split("\n")
             if not ln.startswith(("Formatting ", "Spent ", "Using rustfmt config file"))]
    t = "\n".join(lines).strip()
    if not t:
        return "empty"
    if t.startswith("Format Rust code"):
        return "usage"
    if t.startswith("Configuration Options:"):
        return "configdocs"
    if t.startswith("If you want to restrict reformatting"):
        return "fldocs"
    if t.startswith("rustfmt "):
        return "version"
    if t.startswith("<?xml"):
        return "xml"
    if t.startswith("Diff in"):
        return "diff"
    if t.startswith("["):
        try:
            json.loads(t)
            return "json"
        except ValueError:
            pass
    if any(ln.startswith("max_width = ") for ln in lines):
        return "toml"
    if all(ln.strip().endswith(".rs") or ln.strip() == "<stdin>" for ln in lines if ln.strip()):
        return "listing"
    return "text"


def one(t):
    base, k, f = t
    rustfmt = core.bin_path("rustfmt")
    d = Path(base) / f"c{k}"
    d.mkdir()
    (d / "a.rs").write_text(ORIG)
    argv = argv_of(f, d)
    try:
        r = subprocess.run([rustfmt] + argv, cwd=d, input=ORIG, capture_output=True, text=True,
                           env=core.run_env({"HOME": str(d), "XDG_CONFIG_HOME": str(d / "x")}),
                           timeout=60)
        code, out, err = r.returncode, r.stdout, r.stderr
    except subprocess.TimeoutExpired:
        code, out, err = 124, "", "timeout"
    a = (d / "a.rs").read_text() if (d / "a.rs").exists() else None
    file = "absent" if f["nargs"] == 0 else \
        "orig" if a == ORIG else "formatted" if a == DONE else \
        "toml" if a is not None and "max_width = " in a else "other"
    if f["nargs"] == 0 and a != ORIG:
        file = "other"          # standard input was given, yet the bystander a.rs changed
    o = d / "out.toml"
    outf = "absent" if not o.exists() else "toml" if " = " in o.read_text() else "other"
    obs = {"exit": code, "out": classify(out), "err": bool(err.strip()), "file": file,
           "outf": outf, "bk": (d / "a.bk").exists()}
    for x in d.glob("rustc-ice-*.txt"):
        x.unlink()
    return {"f": f, "o": obs, "_argv": [x.replace(str(d) + "/", "") for x in argv],
            "_stdout": out[:400], "_stderr": err[-600:]}


def observe(scratch, tier):
    cs = combos(3 if tier == "quick" else 4)
    with ThreadPoolExecutor(max_workers=12) as ex:
        return list(ex.map(one, [(str(scratch), k, f) for k, f in enumerate(cs)]))


def model_records():
    """the whole product of the flag dimensions, without observations (Cli.tla ModelOnly)"""
    names = [d for d, _ in DIMS]
    out = []
    for vals in itertools.product(*[vs for _, vs in DIMS]):
        f = dict(zip(names, vals))
        if f["nargs"] == 2 and f["pc"] == "none":
            continue
        out.append({"f": f, "m": True})
    return out


def evaluate_model(scratch):
    recs = model_records()
    fails, states = core.eval_report("Cli", "Cli.cfg", recs, scratch=scratch, chunk=25000)
    return recs, fails, states


def evaluate(recs, scratch):
    slim = [{"f": r["f"], "o": r["o"]} for r in recs]
    return core.eval_report("Cli", "Cli.cfg", slim, scratch=scratch)
