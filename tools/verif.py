#!/usr/bin/env python3
"""Orchestrator:  verif.py check <ID> [--tier quick|thorough] [--replay PATH]
                  verif.py setup"""
import argparse
import importlib
import os
import sys
import traceback
from pathlib import Path

sys.path.insert(0, str(Path(__file__).resolve().parent))
from rfv import core  # noqa: E402


def main():
    ap = argparse.ArgumentParser()
    sub = ap.add_subparsers(dest="cmd", required=True)
    c = sub.add_parser("check")
    c.add_argument("prop")
    c.add_argument("--tier", default=os.environ.get("VERIF_TIER", "quick"))
    c.add_argument("--replay")
    sub.add_parser("setup")
    a = ap.parse_args()
    try:
        if a.cmd == "setup":
            core.build()
            core.build_reference()
            print("setup ok")
            return 0
        seed = int(os.environ.get("VERIF_SEED", "0") or 0)
        tier = a.tier if a.tier in ("quick", "thorough") else "quick"
        mod = importlib.import_module("rfv." + a.prop.lower())
        return mod.run(tier, seed, replay=a.replay)
    except core.ToolError as e:
        print(f"TOOL-ERROR: {e}", file=sys.stderr)
        return 2
    except Exception:
        traceback.print_exc()
        return 2


if __name__ == "__main__":
    sys.exit(main())
